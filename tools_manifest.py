#!/usr/bin/env python3
"""Regenerate MANIFEST.json from the table below (single source of truth)."""
import json, sys
from pathlib import Path

BASE_OFF = "cd /repo && env -u FENICS_FFCX_VERIF /venv/bin/python -m pytest -ra -q -p no:cacheprovider --timeout=900 --continue-on-collection-errors"

CHECKS = {}  # filled by manifest_table.py
NOT_APPLICABLE = {}
exec(Path(__file__).with_name("manifest_table.py").read_text())

props = [json.loads(l)["id"] for l in open("/verif/properties.jsonl")]
checks = []
for pid in props:
    if pid in CHECKS:
        c = CHECKS[pid]
        checks.append({
            "property_id": pid,
            "quick_cmd": f"./check.sh {pid} quick",
            "thorough_cmd": f"./check.sh {pid} thorough",
            "evidence_file": f"/verif/evidence/{pid}.json",
            "replay_cmd_template": "/verif/.venv/bin/python {path}",
            "engine": c["engine"],
            "level_claimed": {"category": c["level"], "text": c["text"], "design_ref": c["ref"]},
            "level_note": c["note"],
            "technique": c["technique"],
        })
na = [{"property_id": p, "reason": NOT_APPLICABLE[p]} for p in props if p not in CHECKS]
for p in props:
    assert p in CHECKS or p in NOT_APPLICABLE, p
man = {
    "version": 1,
    "setup_cmd": "./setup.sh",
    "hooks": {"guard": "FENICS_FFCX_VERIF", "enable": "no source hooks: checks observe /repo through public entry points and module-attribute stubs; FENICS_FFCX_VERIF=1 is exported by check.sh for uniformity only",
              "baseline_off_cmd": BASE_OFF, "source_commits": [], "add_only": True},
    "engines": ENGINES,
    "checks": checks,
    "not_applicable": na,
    "notes": NOTES,
}
Path("/verif/MANIFEST.json").write_text(json.dumps(man, indent=1))
import jsonschema
jsonschema.validate(man, json.load(open("/root/.vp/MANIFEST.schema.json")))
print("MANIFEST ok:", len(checks), "checks,", len(na), "not applicable")
