#!/bin/bash
# usage: tools/seed_intake.sh <worktree> <seed name>
# Copies an agent's deliverables from <worktree>/_seed into /verif/seeded/<name>/, checks that the
# worktree diff equals patch.diff, runs the repository's test suite in the worktree with the change
# applied and the demo with / without the change.  Writes seeded/<name>/intake.txt.
WT=$1; NAME=$2
D=/verif/seeded/$NAME
mkdir -p $D
cp $WT/_seed/patch.diff $WT/_seed/demo.py $WT/_seed/notes.md $D/ 2>/dev/null
{
echo "worktree: $WT  head: $(git -C $WT rev-parse --short HEAD)"
git -C $WT diff -- ffcx > /tmp/seed/$NAME.cur.diff
if diff -q <(grep -v '^index ' /tmp/seed/$NAME.cur.diff) <(grep -v '^index ' $D/patch.diff) >/dev/null; then echo "patch.diff == worktree diff"; else echo "patch.diff DIFFERS from worktree diff (using worktree diff)"; cp /tmp/seed/$NAME.cur.diff $D/patch.diff; fi
cd $WT
echo "--- demo with change:"; (cd /tmp && PYTHONPATH=$WT timeout 1200 /venv/bin/python $D/demo.py 2>&1 | tail -5; echo "exit=${PIPESTATUS[0]}")
git -C $WT apply -R $D/patch.diff
echo "--- demo without change:"; (cd /tmp && PYTHONPATH=$WT timeout 1200 /venv/bin/python $D/demo.py 2>&1 | tail -3; echo "exit=${PIPESTATUS[0]}")
git -C $WT apply $D/patch.diff
echo "--- test suite with change:"
PYTHONPATH=$WT /venv/bin/python -m pytest -q -p no:cacheprovider --timeout=900 -n 6 test/ 2>&1 | tail -4
} > $D/intake.txt 2>&1
git -C $WT status --short | grep -v _seed | grep -v '^ M ffcx' | awk '{print $2}' | (cd $WT; xargs -r rm -rf)
echo "intake $NAME done"; grep -E "exit=|passed|failed|DIFFERS" $D/intake.txt
