#!/bin/bash
# usage: tools/seed_sweep.sh [tier] [parallel] [name ...]
# Runs every seeded change (or the named ones) against the check of the property it breaks, each in
# its own scratch worktree of /repo (VERIF_REPO), evidence/replays under /verif/.work/sweep (VERIF_OUT).
# /repo and /verif/evidence are not touched.  Prints one line per seed; result table in .work/sweep/result.txt
TIER=${1:-quick}; PAR=${2:-4}; shift 2 2>/dev/null
NAMES="$@"; [ -z "$NAMES" ] && NAMES=$(ls /verif/seeded)
OUT=/verif/.work/sweep; mkdir -p $OUT; : > $OUT/result.txt
run_one() {
  n=$1; tier=$2
  prop=$(python3 -c "import json;print(json.load(open('/verif/seeded/$n/meta.json')).get('breaks_property') or '$n'[:3])" 2>/dev/null)
  wt=/tmp/sweep_$n
  git -C /repo worktree remove --force $wt >/dev/null 2>&1; rm -rf $wt
  git -C /repo worktree add --detach $wt HEAD >/dev/null 2>&1 || { echo "$n worktree-failed" >> $OUT/result.txt; return; }
  if ! git -C $wt apply /verif/seeded/$n/patch.diff 2>/dev/null; then echo "$n $prop PATCH-DOES-NOT-APPLY" | tee -a $OUT/result.txt; git -C /repo worktree remove --force $wt; return; fi
  s=$(date +%s)
  VERIF_REPO=$wt VERIF_OUT=$OUT/$n VERIF_JOBS=5 /verif/check.sh $prop $tier > $OUT/$n.log 2>&1; rc=$?
  e=$(date +%s)
  echo "$n $prop rc=$rc $((e-s))s $(grep -m1 -o 'VIOLATION property=[A-Z0-9]* replay=[^ ]* key=[^ ]*' $OUT/$n.log | cut -c1-160)" | tee -a $OUT/result.txt
  git -C /repo worktree remove --force $wt >/dev/null 2>&1; rm -rf $wt $OUT/$n
}
export -f run_one; export OUT
echo $NAMES | tr ' ' '\n' | xargs -P $PAR -I{} bash -c "run_one {} $TIER"
echo "--- missed:"; grep -v "rc=1" $OUT/result.txt
