#!/usr/bin/env python3
"""Evaluate a seeded change: apply /verif/seeded/<name>/patch.diff to /repo, run the demo and the
given checks, undo.  usage: seed_eval.py <name> <tier> <check id> [<check id> ...]
Writes/updates seeded/<name>/meta.json (fields 'evaluation')."""
import json, subprocess, sys, time
from pathlib import Path

name, tier, *checks = sys.argv[1:]
d = Path("/verif/seeded") / name
patch = d / "patch.diff"
meta_p = d / "meta.json"
meta = json.loads(meta_p.read_text()) if meta_p.exists() else {}


def sh(cmd, **kw):
    return subprocess.run(cmd, shell=True, capture_output=True, text=True, **kw)


assert sh("git -C /repo status --porcelain --untracked-files=no").stdout.strip() == "", "/repo has uncommitted tracked changes"
demo = next((p for p in [d / "demo.py"] if p.exists()), None)
out = {"at": time.strftime("%Y-%m-%d %H:%M:%S"), "repo_head": sh("git -C /repo rev-parse --short HEAD").stdout.strip(), "tier": tier, "checks": {}}
if demo:
    r = sh(f"cd /tmp && PYTHONPATH=/repo /venv/bin/python {demo}")
    out["demo_without_patch_exit"] = r.returncode
r = sh(f"git -C /repo apply {patch}")
if r.returncode:
    print("patch does not apply:", r.stderr)
    sys.exit(2)
try:
    if demo:
        r = sh(f"cd /tmp && PYTHONPATH=/repo /venv/bin/python {demo}")
        out["demo_with_patch_exit"] = r.returncode
        out["demo_with_patch_tail"] = (r.stdout + r.stderr)[-400:]
    for c in checks:
        t0 = time.time()
        r = sh(f"cd /verif && ./check.sh {c} {tier}")
        lines = [l for l in r.stdout.splitlines() if l.startswith("VIOLATION") or l.startswith("[") or l.startswith("HARNESS")]
        out["checks"][c] = {"exit": r.returncode, "wall_s": round(time.time() - t0, 1), "violations": len([l for l in lines if l.startswith("VIOLATION")]),
                            "first": next((l[:300] for l in lines if l.startswith("VIOLATION")), None), "summary": next((l[:300] for l in lines if l.startswith("[")), None)}
        print(c, "exit", r.returncode, out["checks"][c]["first"] or out["checks"][c]["summary"])
finally:
    sh("git -C /repo checkout -- .")
    sh("rm -rf /verif/replays")
assert sh("git -C /repo status --porcelain --untracked-files=no").stdout.strip() == ""
meta.setdefault("evaluations", []).append(out)
meta["detected_by"] = sorted(set(meta.get("detected_by", [])) | {c for c, v in out["checks"].items() if v["exit"] == 1})
meta_p.write_text(json.dumps(meta, indent=1))
print(json.dumps({k: v for k, v in out.items() if k != "checks"}))
