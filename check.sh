#!/bin/bash
# usage: ./check.sh <property id> [quick|thorough] [extra args]
# Ensures the overlay interpreter exists, then runs checks/<id>.py against the
# current /repo working tree.  Exit 0 = held, 1 = VIOLATION, 3 = harness error.
cd "$(dirname "$0")"
ID=$1; shift
TIER=${1:-${VERIF_TIER:-quick}}; [ $# -gt 0 ] && shift
./setup.sh 1>&2 || { echo "setup failed" 1>&2; exit 3; }
export FENICS_FFCX_VERIF=1
export PYTHONPATH=/verif:${VERIF_REPO:-/repo}
export PYTHONDONTWRITEBYTECODE=1
export PYTHONHASHSEED=${PYTHONHASHSEED:-0}
export OMP_NUM_THREADS=1 OPENBLAS_NUM_THREADS=1
mod=$(echo "$ID" | tr 'A-Z' 'a-z')
exec /verif/.venv/bin/python -W ignore -m checks.$mod --tier "$TIER" "$@" 2> >(grep -v "conda" 1>&2)
