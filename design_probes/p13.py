# Prototype: extract the per-process decision tree of the real compile_forms by scripted environment
import types, sys, io, logging, contextlib, itertools, os
from pathlib import Path
import ffcx, ffcx.compiler
import ffcx.codegeneration.jit as jit
import basix.ufl, ufl

class NeedChoice(Exception):
    def __init__(s, n): s.n=n
class Env:
    def __init__(s, script): s.script=list(script); s.pos=0; s.events=[]
    def choose(s, ev, outcomes):
        s.events.append(ev)
        if len(outcomes)==1: return outcomes[0]
        if s.pos>=len(s.script): raise NeedChoice(len(outcomes))
        c=s.script[s.pos]; s.pos+=1; s.events[-1]=(ev, outcomes[c]); return outcomes[c]

def run(script, T=2):
    env=Env(script)
    class FakeFile:
        def __init__(s,name): s.name=name
        def __enter__(s): return s
        def __exit__(s,*a): return False
        def write(s,x): env.choose(("write",s.name),["ok"])
        def close(s): pass
    def fake_open(name, mode="r"):
        nm=Path(name).name.split("_")[-1] if False else ("cached" if str(name).endswith(".cached") else "c")
        if mode=="x":
            o=env.choose(("open_x",nm),["ok","exists"])
            if o=="exists": raise FileExistsError(name)
            return FakeFile(nm)
        raise RuntimeError("unexpected open "+mode)
    class FakeOS:
        class path:
            @staticmethod
            def exists(p): return env.choose(("exists","cached"),[True,False])
            dirname=os.path.dirname; abspath=os.path.abspath
        @staticmethod
        def replace(a,b): env.choose(("rename_c_failed",),["ok"])
    class FakeTime:
        @staticmethod
        def sleep(n): env.choose(("sleep",),["ok"])
        time=staticmethod(lambda:0.0)
    class FakeFFI:
        def set_source(s,*a,**k): pass
        def cdef(s,d): pass
        def compile(s,**k):
            env.choose(("write_c_source",),["ok"]); env.choose(("so_partial",),["ok"])
            o=env.choose(("cc",),["ok","fail"])
            if o=="fail": raise RuntimeError("cc failed")
            env.choose(("so_complete",),["ok"])
    class FakeCffi: FFI=FakeFFI
    def fake_load(cache_dir,module_name,names):
        env.choose(("load",),["ok"]); return ["obj"], "mod"
    class FakeFinder:
        def __init__(s,*a): pass
        def invalidate_caches(s): pass
        def find_spec(s,n):
            env.choose(("load",),["ok"])
            return types.SimpleNamespace(loader=types.SimpleNamespace(exec_module=lambda m:None))
    class FakeImportlib:
        class machinery:
            FileFinder=FakeFinder; ExtensionFileLoader=None; EXTENSION_SUFFIXES=[]
        class util:
            @staticmethod
            def module_from_spec(spec): return types.SimpleNamespace(lib=types.SimpleNamespace(__getattr__=None))
    def fake_codegen(objs, namespace=None, options=None, visualise=False):
        o=env.choose(("codegen",),["ok","fail"])
        if o=="fail": raise RuntimeError("codegen failed")
        return ["h","c"],(".h",".c")
    saved={k:getattr(jit,k) for k in ["open","os","time","cffi","_load_objects","importlib"] if hasattr(jit,k)}
    saved_cg=ffcx.compiler.compile_ufl_objects
    jit.open=fake_open; jit.os=FakeOS; jit.time=FakeTime; jit.cffi=FakeCffi; jit._load_objects=fake_load; jit.importlib=FakeImportlib
    ffcx.compiler.compile_ufl_objects=fake_codegen
    root=logging.getLogger(); h0=list(root.handlers); so=sys.stdout
    res=None
    try:
        try:
            # getattr on lib for object names
            class Lib:
                def __getattr__(s,n): return "obj"
            FakeImportlib.util.module_from_spec=staticmethod(lambda spec: types.SimpleNamespace(lib=Lib()))
            out=jit.compile_forms([FORM], cache_dir="/tmp/probe/cache_x", timeout=T)
            res=("return", out[0] is not None)
        except NeedChoice as n:
            return ("need", n.n, env.events)
        except BaseException as e:
            res=("raise", type(e).__name__)
    finally:
        for k,v in saved.items(): setattr(jit,k,v)
        if "open" not in saved: del jit.open
        ffcx.compiler.compile_ufl_objects=saved_cg
        restored=(root.handlers==h0, sys.stdout is so)
        root.handlers=h0
    return ("leaf", res, restored, env.events)

cell="triangle"
el = basix.ufl.element("Lagrange", cell, 1)
dom = ufl.Mesh(basix.ufl.element("Lagrange", cell, 1, shape=(2,)))
V = ufl.FunctionSpace(dom, el); u,v=ufl.TrialFunction(V),ufl.TestFunction(V)
FORM=u*v*ufl.dx
leaves=[]; stack=[[]]
while stack:
    sc=stack.pop()
    r=run(sc)
    if r[0]=="need":
        for c in range(r[1]): stack.append(sc+[c])
    else: leaves.append((sc,r))
for sc,r in sorted(leaves):
    evs=[e[0] if isinstance(e[0],str) else (e[0][0]+":"+str(e[1])) for e in r[3]]
    print(sc, r[1], "handlers/stdout restored", r[2], " ".join(evs))
