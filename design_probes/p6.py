import basix, basix.ufl, ufl, numpy as np, time, re, sys
from fractions import Fraction
from sympy.polys.rings import ring
from sympy import QQ
from ffcx.compiler import compile_ufl_objects
from ffcx.options import get_options

NAT=40
def setup(nw,nc,nx):
    names=[f"w{i}" for i in range(nw)]+[f"c{i}" for i in range(nc)]+[f"x{i}" for i in range(nx)]+[f"r{i}" for i in range(NAT)]+[f"s{i}" for i in range(NAT)]
    R,*gens=ring(names,QQ)
    return R,gens
class Ctx:
    def __init__(s,R,gens,nw,nc,nx):
        s.R=R; s.w=gens[:nw]; s.c=gens[nw:nw+nc]; s.x=gens[nw+nc:nw+nc+nx]; s.r=gens[nw+nc+nx:nw+nc+nx+NAT]; s.s=gens[nw+nc+nx+NAT:]
        s.inv={}; s.abs={}
    def key(s,p):
        return tuple(sorted((m, round(float(c),10)) for m,c in p.terms()))
    def atom_inv(s,p):
        k=s.key(p)
        if k not in s.inv: s.inv[k]=s.r[len(s.inv)]
        return s.inv[k]
    def atom_abs(s,p):
        k=s.key(p)
        if k not in s.abs: s.abs[k]=s.s[len(s.abs)]
        return s.abs[k]
CTX=None
class V:
    __slots__=("p",)
    def __init__(s,p): s.p=p
    @staticmethod
    def lift(o):
        if isinstance(o,V): return o
        if isinstance(o,float): return V(CTX.R(QQ(Fraction(repr(o)))))
        return V(CTX.R(QQ(o)))
    def __add__(a,b): return V(a.p+V.lift(b).p)
    __radd__=__add__
    def __sub__(a,b): return V(a.p-V.lift(b).p)
    def __rsub__(a,b): return V(V.lift(b).p-a.p)
    def __mul__(a,b): return V(a.p*V.lift(b).p)
    __rmul__=__mul__
    def __neg__(a): return V(-a.p)
    def __truediv__(a,b):
        b=V.lift(b)
        if b.p.is_ground: return V(a.p/b.p.coeff(1)) if False else V(a.p*CTX.R(1/QQ(b.p.LC)))
        return V(a.p*CTX.atom_inv(b.p))
    def __rtruediv__(a,b): return V.lift(b).__truediv__(a)
class Arr:
    def __init__(self, data): self.d = data
    def _get(self, idx):
        if not isinstance(idx, tuple): idx=(idx,)
        d=self.d
        for i in idx[:-1]: d=d[i]
        return d, idx[-1]
    def __getitem__(self, idx):
        d,i=self._get(idx); return d[i]
    def __setitem__(self, idx, v):
        d,i=self._get(idx); d[i]=v
def tolist(x):
    if isinstance(x,(list,tuple)): return [tolist(i) for i in x]
    return V.lift(x)
class NP:
    float64='f8'
    @staticmethod
    def array(l, dtype=None): return Arr(tolist(l))
    @staticmethod
    def full(shape, v, dtype=None):
        while isinstance(v,(list,tuple)): v=v[0]
        def mk(s):
            if len(s)==1: return [V.lift(v) for _ in range(s[0])]
            return [mk(s[1:]) for _ in range(s[0])]
        return Arr(mk(shape))
    @staticmethod
    def abs(x): return V(CTX.atom_abs(x.p))
    fabs=abs
class NB:
    @staticmethod
    def carray(x,n): return x
def sym_kernel(src, nA, nw, nc, nx):
    global CTX
    m = re.search(r"def (tabulate_tensor_\w+)\(", src)
    ns={'numba':NB,'np':NP,'math':None}
    body = src[src.index("def "+m.group(1)):]
    body = body[:body.index("\nclass ")]
    exec(body, ns)
    R,gens=setup(nw,nc,nx); CTX=Ctx(R,gens,nw,nc,nx)
    A=[V.lift(0) for _ in range(nA)]
    ns[m.group(1)](A,[V(g) for g in CTX.w],[V(g) for g in CTX.c],[V(g) for g in CTX.x],[0,0],[0,0],None)
    return A
for cell,deg,gdeg in [("triangle",1,1),("triangle",2,1),("triangle",1,2),("quadrilateral",1,1),("tetrahedron",1,1),("tetrahedron",2,1)]:
    el = basix.ufl.element("Lagrange", cell, deg)
    gd = {"triangle":2,"quadrilateral":2,"tetrahedron":3}[cell]
    cel = basix.ufl.element("Lagrange", cell, gdeg, shape=(gd,))
    dom = ufl.Mesh(cel)
    V_ = ufl.FunctionSpace(dom, el)
    u,v = ufl.TrialFunction(V_), ufl.TestFunction(V_)
    f = ufl.Coefficient(V_); k = ufl.Constant(dom)
    a = k*f*ufl.inner(ufl.grad(u), ufl.grad(v))*ufl.dx
    t=time.time()
    code, sfx = compile_ufl_objects([a], get_options({"language":"numba"}), namespace="x")
    t1=time.time()-t
    n=el.dim; nx=3*(cel.dim//gd)
    t=time.time()
    A=sym_kernel(code[0], n*n, n, 1, nx)
    print(cell,deg,gdeg,"compile",round(t1,2),"symexec",round(time.time()-t,2),"terms A00",len(A[0].p.terms()),"max terms",max(len(a_.p.terms()) for a_ in A),"atoms",len(CTX.inv),len(CTX.abs))
