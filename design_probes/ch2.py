from ch1 import mk, ev, L
def check_mul_0_2(v1: float, a: float) -> bool:
    """
    pre: -1000 < v1 < 1000 and -1000 < a < 1000
    post: _
    """
    x = mk(0, v1, 0); y = mk(2, 0.0, 0)
    env = {"a": a, "b": 1.0}
    return ev(x * y, env) == ev(x, env) * ev(y, env)
def check_mul_1_4(n1: int, a: float, b: float) -> bool:
    """
    pre: -1000 < n1 < 1000 and -1000 < a < 1000 and -1000 < b < 1000
    post: _
    """
    x = mk(1, 0.0, n1); y = mk(4, 0.0, 0)
    env = {"a": a, "b": b}
    return ev(x * y, env) == ev(x, env) * ev(y, env)
def check_add_0_3(v1: float, a: float, b: float) -> bool:
    """
    pre: -1000 < v1 < 1000 and -1000 < a < 1000 and -1000 < b < 1000
    post: _
    """
    x = mk(0, v1, 0); y = mk(3, 0.0, 0)
    env = {"a": a, "b": b}
    return ev(x + y, env) == ev(x, env) + ev(y, env)
