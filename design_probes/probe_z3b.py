import time, z3, itertools
# exact identity probe with division: Laplace P1 structure
x=[z3.Real(f"x{i}") for i in range(6)]; w=[z3.Real(f"w{i}") for i in range(3)]; c=z3.Real("c")
J=[[x[2]-x[0], x[4]-x[0]],[x[3]-x[1], x[5]-x[1]]]
det=J[0][0]*J[1][1]-J[0][1]*J[1][0]
# "kernel" style
sp3=J[0][0]*J[1][1] + (-(J[0][1]*J[1][0]))
K00=J[0][0]/sp3; K01=(-J[0][1])/sp3; K10=(-J[1][0])/sp3; K11=J[1][1]/sp3
g=[[-1,-1],[1,0],[0,1]]
third=z3.RealVal(1)/3
w0=w[0]*third+w[1]*third+w[2]*third
def absf(e): return z3.If(e>=0,e,-e)
def kernelA(i,j):
    # sum_d (sum_r K[r][d] g[i][r]) (sum_s K[s][d] g[j][s])
    Km=[[K11,K01],[K10,K00]]  # Kinv[r][d]: inverse = 1/det [[J11,-J01],[-J10,J00]]
    Kinv=[[K11,K01],[K10,K00]]
    t=0
    for d in range(2):
        gi=sum(Kinv[r][d]*g[i][r] for r in range(2)); gj=sum(Kinv[r][d]*g[j][r] for r in range(2))
        t=t+gi*gj
    return (c*w0)*t*absf(sp3)*z3.RealVal("1/2")
def refA(i,j):
    adj=[[J[1][1],-J[0][1]],[-J[1][0],J[0][0]]]
    t=0
    for d in range(2):
        gi=sum(adj[r][d]*g[i][r] for r in range(2)); gj=sum(adj[r][d]*g[j][r] for r in range(2))
        t=t+gi*gj
    return z3.RealVal("1/2")*c*(w[0]+w[1]+w[2])/3*t/(det*det)*absf(det)
tot=0
for i in range(3):
  for j in range(3):
    s=z3.Solver(); s.set("timeout",30000)
    s.add(det!=0)
    s.add(kernelA(i,j)!=refA(i,j))
    t=time.time(); r=s.check(); dt=time.time()-t; tot+=dt
    print(i,j,r,round(dt,2))
print(tot)
