import numpy as np, z3, time
from ffcx.ir.elementtables import permute_quadrature_triangle as T, permute_quadrature_quadrilateral as Q, permute_quadrature_interval as I
x,y=z3.Reals("x y")
pts=np.empty((1,2),dtype=object); pts[0,0]=x; pts[0,1]=y
def eq(a,b): return z3.And(*[a[0,i]==b[0,i] for i in range(a.shape[1])])
s=z3.Solver()
# rot^3 = id, ref^2 = id, closure: every composition of two table entries equals some table entry
elems=[(rot,ref) for rot in range(3) for ref in range(2)]
maps=[T(pts,ref,rot) for rot,ref in elems]
print([z3.simplify(m[0,0]) for m in maps], [z3.simplify(m[0,1]) for m in maps])
t=time.time()
ok=True
for i,m1 in enumerate(maps):
    for j,(rot,ref) in enumerate(elems):
        comp=T(m1,ref,rot)
        s.push(); s.add(z3.Not(z3.Or(*[eq(comp,m) for m in maps]))); r=s.check(); s.pop()
        ok &= (str(r)=="unsat")
# distinctness
for i in range(6):
    for j in range(i):
        s.push(); s.add(z3.ForAll([x,y], eq(maps[i],maps[j]))); r=s.check(); s.pop(); ok &= (str(r)=="unsat")
print("triangle group closed & distinct:", ok, round(time.time()-t,2))
