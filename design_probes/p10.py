import z3, time
from fractions import Fraction as F
# (1) literal round-trip: segment binade e (x in [2^e, 2^(e+1))), decade d (x in [10^d,10^(d+1)))
def seg_query(e, d, digits=16):
    lo = max(F(2)**e, F(10)**d); hi = min(F(2)**(e+1), F(10)**(d+1))
    if lo >= hi: return None
    ulp = F(2)**(e-52); q = F(10)**(d-(digits-1))
    n, m, n2 = z3.Ints("n m n2")
    s = z3.Solver(); s.set("timeout", 20000)
    def R(fr): return z3.RealVal(str(fr.numerator))/z3.RealVal(str(fr.denominator))
    x = z3.ToReal(n)*R(ulp); dec = z3.ToReal(m)*R(q); y = z3.ToReal(n2)*R(ulp)
    s.add(x >= R(lo), x < R(hi))
    s.add(n >= 2**52, n < 2**53)
    # dec is nearest decimal (ties ignored: allow <=)
    s.add(dec - x <= R(q/2), x - dec <= R(q/2))
    # y nearest double to dec, assume stays in same binade (boundary effects handled separately)
    s.add(y - dec <= R(ulp/2), dec - y <= R(ulp/2))
    s.add(z3.Or(n2 - n >= 2, n - n2 >= 2))
    t=time.time(); r=s.check(); dt=time.time()-t
    out=None
    if str(r)=="sat":
        mdl=s.model(); out=float(F(mdl[n].as_long())*ulp)
    return str(r), round(dt,3), out
for e,d in [(0,0),(9,3),(3,0),(-4,-2),(-4,-1),(100,30),(-1000,-302),(52,15)]:
    for dg in (16,17):
        print(e,d,dg,seg_query(e,d,dg))
