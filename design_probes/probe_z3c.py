import time, z3
x=[z3.Real(f"x{i}") for i in range(6)]; w=[z3.Real(f"w{i}") for i in range(3)]; c=z3.Real("c")
r=z3.Real("r"); s=z3.Real("s")
J=[[x[2]-x[0], x[4]-x[0]],[x[3]-x[1], x[5]-x[1]]]
K00=J[0][0]*r; K01=(-J[0][1])*r; K10=(-J[1][0])*r; K11=J[1][1]*r
g=[[-1,-1],[1,0],[0,1]]
third=z3.RealVal(1)/3
w0=w[0]*third+w[1]*third+w[2]*third
def kernelA(i,j):
    Kinv=[[K11,K01],[K10,K00]]
    t=0
    for d in range(2):
        gi=sum(Kinv[r_][d]*g[i][r_] for r_ in range(2)); gj=sum(Kinv[r_][d]*g[j][r_] for r_ in range(2))
        t=t+gi*gj
    return (c*w0)*t*s*z3.RealVal("1/2")
def refA(i,j):
    adj=[[J[1][1],-J[0][1]],[-J[1][0],J[0][0]]]
    t=0
    for d in range(2):
        gi=sum(adj[r_][d]*g[i][r_] for r_ in range(2)); gj=sum(adj[r_][d]*g[j][r_] for r_ in range(2))
        t=t+gi*gj
    return z3.RealVal("1/2")*c*(w[0]+w[1]+w[2])/3*t*r*r*s
tot=0
for i in range(3):
  for j in range(3):
    for bug in (False, True):
        sol=z3.Solver(); sol.set("timeout",30000)
        k=kernelA(i,j)
        if bug: k = k + z3.RealVal("1/1000")*x[0]*w[1]*r
        sol.add(k!=refA(i,j))
        t=time.time(); res=sol.check(); dt=time.time()-t; tot+=dt
        print(i,j,bug,res,round(dt,2))
print(tot)
