import basix, basix.ufl, ufl, numpy as np, time, re, sys
from fractions import Fraction
from ffcx.compiler import compile_ufl_objects
from ffcx.options import get_options
import z3

class Arr:
    def __init__(self, data): self.d = data
    def _get(self, idx):
        if not isinstance(idx, tuple): idx=(idx,)
        d=self.d
        for i in idx[:-1]: d=d[i]
        return d, idx[-1]
    def __getitem__(self, idx):
        d,i=self._get(idx); return d[i]
    def __setitem__(self, idx, v):
        d,i=self._get(idx); d[i]=v
def tolist(x):
    if isinstance(x,(list,tuple)): return [tolist(i) for i in x]
    return z3.RealVal(Fraction(repr(float(x)))) if isinstance(x,float) else x
class NP:
    float64='f8'
    @staticmethod
    def array(l, dtype=None): return Arr(tolist(l))
    @staticmethod
    def full(shape, v, dtype=None):
        def mk(s):
            if len(s)==1: return [tolist(v) for _ in range(s[0])]
            return [mk(s[1:]) for _ in range(s[0])]
        # v may be nested list
        while isinstance(v,(list,tuple)): v=v[0]
        return Arr(mk(shape))
    @staticmethod
    def empty(shape, dtype=None):
        return NP.full(shape, 0.0)
    @staticmethod
    def abs(x): return z3.If(x>=0,x,-x)
    fabs=abs
class NB:
    @staticmethod
    def carray(x,n): return x

def sym_kernel(src, fname_re, nA, nw, nc, nx):
    m = re.search(r"def (tabulate_tensor_\w+)\(", src)
    ns={'numba':NB,'np':NP,'math':None}
    body = src[src.index("def "+m.group(1)):]
    body = body[:body.index("\nclass ")]
    exec(body, ns)
    A=[z3.RealVal(0) for _ in range(nA)]
    w=[z3.Real(f"w{i}") for i in range(nw)]
    c=[z3.Real(f"c{i}") for i in range(nc)]
    x=[z3.Real(f"x{i}") for i in range(nx)]
    ns[m.group(1)](A,w,c,x,[0,0],[0,0],None)
    return A,w,c,x

cell="triangle"
el = basix.ufl.element("Lagrange", cell, 1)
dom = ufl.Mesh(basix.ufl.element("Lagrange", cell, 1, shape=(2,)))
V = ufl.FunctionSpace(dom, el)
u,v = ufl.TrialFunction(V), ufl.TestFunction(V)
f = ufl.Coefficient(V); k = ufl.Constant(dom)
a = k*f*ufl.inner(ufl.grad(u), ufl.grad(v))*ufl.dx
code, sfx = compile_ufl_objects([a], get_options({"language":"numba"}), namespace="x")
A,w,c,x = sym_kernel(code[0], None, 9,3,1,9)
# reference: independent formula
X = [[x[0],x[1]],[x[3],x[4]],[x[6],x[7]]]
J = [[X[1][0]-X[0][0], X[2][0]-X[0][0]],[X[1][1]-X[0][1], X[2][1]-X[0][1]]]
det = J[0][0]*J[1][1]-J[0][1]*J[1][0]
Kinv = [[J[1][1]/det, -J[0][1]/det],[-J[1][0]/det, J[0][0]/det]]
gref = [[-1,-1],[1,0],[0,1]]
def grad(i): return [sum(Kinv[r][d]*gref[i][r] for r in range(2)) for d in range(2)]
third = z3.RealVal(1)/3
fq = (w[0]+w[1]+w[2])*third
absdet = z3.If(det>=0, det, -det)
R = [[ c[0]*fq*sum(grad(j)[d]*grad(i)[d] for d in range(2))*absdet*z3.RealVal("1/2") for j in range(3)] for i in range(3)]
tol = z3.RealVal("1/1000000")
tot=0
for i in range(3):
  for j in range(3):
    s = z3.Solver(); s.set("timeout", 60000)
    for var in w+c: s.add(var>=-2, var<=2)
    for var in x: s.add(var>=-2, var<=2)
    s.add(z3.Or(det>=z3.RealVal("1/10"), det<=-z3.RealVal("1/10")))
    d = A[3*i+j]-R[i][j]
    s.add(z3.Or(d>tol, d<-tol))
    t=time.time(); r=s.check(); dt=time.time()-t; tot+=dt
    print(i,j,r,round(dt,2))
    if str(r)=="sat": print(s.model())
print("total",tot)
