import z3, time
F16=z3.Float16(); rm=z3.RNE()
a,b,c,d=[z3.FP(n,F16) for n in "abcd"]
def ok(x): return z3.And(z3.Not(z3.fpIsNaN(x)), z3.Not(z3.fpIsInf(x)))
tests={
 "a-(b-c) vs (a-b)-c": (z3.fpSub(rm,a,z3.fpSub(rm,b,c)), z3.fpSub(rm,z3.fpSub(rm,a,b),c)),
 "a+(b+c) vs (a+b)+c": (z3.fpAdd(rm,a,z3.fpAdd(rm,b,c)), z3.fpAdd(rm,z3.fpAdd(rm,a,b),c)),
 "a*(b/c) vs (a*b)/c": (z3.fpMul(rm,a,z3.fpDiv(rm,b,c)), z3.fpDiv(rm,z3.fpMul(rm,a,b),c)),
 "same (a*b)/c*d": (z3.fpMul(rm,z3.fpDiv(rm,z3.fpMul(rm,a,b),c),d), z3.fpMul(rm,z3.fpDiv(rm,z3.fpMul(rm,a,b),c),d)),
 "-(a*b) vs (-a)*b": (z3.fpNeg(z3.fpMul(rm,a,b)), z3.fpMul(rm,z3.fpNeg(a),b)),
 "a/(b*c) vs a/b*c": (z3.fpDiv(rm,a,z3.fpMul(rm,b,c)), z3.fpMul(rm,z3.fpDiv(rm,a,b),c)),
}
for k,(x,y) in tests.items():
    s=z3.Solver(); s.set("timeout",60000)
    s.add(ok(x),ok(y), z3.Not(z3.fpEQ(x,y)))
    t=time.time(); r=s.check(); print(k, r, round(time.time()-t,2))
