# (a) float literal ulp
import math, struct
from ffcx.codegeneration.C.formatter import Formatter
F=Formatter("float64")
def ulps(a,b):
    ia=struct.unpack('<q',struct.pack('<d',a))[0]; ib=struct.unpack('<q',struct.pack('<d',b))[0]; return abs(ia-ib)
worst=0
for x in [1.0000000000000004, 1001.0000000000003, 1.3333333333333333, 0.1, 1.0000000000000007, 8.000000000000004, 1023.9999999999995]:
    s=F._format_number(x); y=float(s); print(repr(x), s, ulps(x,y))
# (b) integral_data offsets on prism ds + dS
import basix.ufl, ufl
from ffcx.compiler import compile_ufl_objects
from ffcx.options import get_options
import re
cell="prism"
el = basix.ufl.element("Lagrange", cell, 1)
dom = ufl.Mesh(basix.ufl.element("Lagrange", cell, 1, shape=(3,)))
V = ufl.FunctionSpace(dom, el)
u,v = ufl.TrialFunction(V), ufl.TestFunction(V)
for name,a in [("ds+dS", u*v*ufl.ds + u('+')*v('+')*ufl.dS), ("dx+ds", u*v*ufl.dx+u*v*ufl.ds), ("ds+dP", u*v*ufl.ds + u*v*ufl.dP)]:
    try:
        code,_ = compile_ufl_objects([a], get_options({}), namespace="x")
        m = re.search(r"form_integral_offsets_\w+\[6\] = \{([^}]*)\}", code[1]); n = re.search(r"form_integrals_\w+\[(\d+)\]", code[1])
        print(name, "offsets", m.group(1), "n kernels", n.group(1))
    except Exception as e:
        print(name, "EXC", type(e).__name__, str(e)[:200])
