import basix.ufl, ufl, numpy as np, logging, sys, tempfile
from ffcx.compiler import compile_ufl_objects
from ffcx.options import get_options
import ffcx.naming, ffcx.codegeneration.jit as jit
cell="triangle"
el = basix.ufl.element("Lagrange", cell, 1)
dom = ufl.Mesh(basix.ufl.element("Lagrange", cell, 1, shape=(2,)))
V = ufl.FunctionSpace(dom, el)
u,v = ufl.TrialFunction(V), ufl.TestFunction(V)
f = ufl.Coefficient(V)
# (c) numba min/max/atan2/Not
for nm, e in [("max", ufl.max_value(f,0.5)), ("atan2", ufl.atan2(f,1.0+f*f)), ("not", ufl.conditional(ufl.Not(ufl.lt(f,0.5)),1.0,2.0)), ("bessel", ufl.bessel_J(1,f))]:
    code,_ = compile_ufl_objects([e*v*ufl.dx], get_options({"language":"numba"}), namespace="x")
    import re
    lines=[l.strip() for l in code[0].split("\n") if re.search(r"np\.(min_value|max_value|atan_2)|scipy|!\(|= !", l)]
    print(nm, lines[:3])
# (e) expression points repr collision
p1=np.array([[0.1234567891,0.2]]); p2=np.array([[0.1234567892,0.2]])
s1=ffcx.naming.compute_signature([(f, p1)],"t"); s2=ffcx.naming.compute_signature([(f,p2)],"t")
print("points sig equal:", s1==s2, repr(p1))
# (h) J ufl_id
def gen():
    dom = ufl.Mesh(basix.ufl.element("Lagrange", cell, 1, shape=(2,)))
    V = ufl.FunctionSpace(dom, el); u,v = ufl.TrialFunction(V), ufl.TestFunction(V)
    a=ufl.inner(ufl.grad(u),ufl.grad(v))*ufl.dx
    return compile_ufl_objects([a], get_options({}), namespace="x")[0][1]
c1=gen(); 
for _ in range(3): ufl.Mesh(basix.ufl.element("Lagrange", cell, 1, shape=(2,)))
c2=gen()
print("same text after unrelated meshes:", c1==c2, set(re.findall(r"J\d+_c0",c1)), set(re.findall(r"J\d+_c0",c2)))
# (d) JIT failure leaves handlers
root=logging.getLogger(); before=list(root.handlers); so=sys.stdout
a=u*v*ufl.dx
d=tempfile.mkdtemp()
try:
    jit.compile_forms([a], cache_dir=d, cffi_extra_compile_args=["-this-flag-does-not-exist-xyz", "-Werror"], cffi_libraries=["nonexistentlibxyz"])
    print("no failure?!")
except Exception as e:
    print("compile failed:", type(e).__name__)
import os
print("handlers restored:", root.handlers==before, root.handlers, "stdout restored:", sys.stdout is so, sorted(os.listdir(d))[:5])
