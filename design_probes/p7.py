import basix, numpy as np, itertools, collections
from ffcx.ir.representationutils import QuadratureRule
from ffcx.element_interface import create_quadrature
res=collections.defaultdict(list)
for cell in ["interval","triangle","quadrilateral","tetrahedron","hexahedron","prism","pyramid"]:
    for scheme in ["default","GLL","Gauss-Jacobi","Xiao-Gimbutas"]:
        for deg in range(0,31):
            try:
                p,w=create_quadrature(cell,deg,scheme,[])
            except Exception as e:
                continue
            r=QuadratureRule(np.asarray(p),np.asarray(w)); hash(r)
            res[(cell)].append((r.id(), scheme, deg, r))
for cell,l in res.items():
    by=collections.defaultdict(list)
    for id_,s,d,r in l: by[id_].append((s,d,r))
    coll=[]
    for id_,v in by.items():
        # distinct rules (not equal) sharing id
        for (s1,d1,r1),(s2,d2,r2) in itertools.combinations(v,2):
            if r1.points.shape!=r2.points.shape or not (r1==r2): coll.append((id_,s1,d1,s2,d2))
    print(cell, len(l), "collisions:", coll[:6])
