import re, time, subprocess, sys
from pycparser import c_parser, c_ast
import basix.ufl, ufl
from ffcx.compiler import compile_ufl_objects
from ffcx.options import get_options
cell="triangle"
el = basix.ufl.element("Lagrange", cell, 1)
dom = ufl.Mesh(basix.ufl.element("Lagrange", cell, 1, shape=(2,)))
V = ufl.FunctionSpace(dom, el)
u,v = ufl.TrialFunction(V), ufl.TestFunction(V)
f = ufl.Coefficient(V); k = ufl.Constant(dom)
a = ufl.sqrt(k*f)*ufl.inner(ufl.grad(u), ufl.grad(v))*ufl.dx + ufl.inner(ufl.jump(u),ufl.jump(v))*ufl.dS
for st in ["float64","complex128"]:
    code, sfx = compile_ufl_objects([a], get_options({"scalar_type":st}), namespace="x")
    open("k.c","w").write(code[1])
    pp = subprocess.run(["gcc","-E","-P","-std=c17","-nostdinc","-Ifake","-I/repo/ffcx/codegeneration","k.c"],capture_output=True,text=True)
    if pp.returncode: print(pp.stderr[:500]); sys.exit()
    t=time.time()
    ast = c_parser.CParser().parse(pp.stdout)
    print(st, "parsed", round(time.time()-t,2), [type(e).__name__ for e in ast.ext][-6:])
    fn=[e for e in ast.ext if isinstance(e,c_ast.FuncDef)][0]
    print(fn.decl.name, len(fn.body.block_items), type(fn.body.block_items[0]).__name__)
