# Prototype: ksym (numba-text shim, polynomial domain) vs uflref (independent UFL evaluator), Q-tol via z3 LRA
import basix, basix.ufl, ufl, numpy as np, time, re, sys, itertools
from fractions import Fraction
from sympy.polys.rings import ring
from sympy import QQ
import z3
from ufl.classes import *
from ffcx.compiler import compile_ufl_objects
from ffcx.options import get_options
import p6
from p6 import V, sym_kernel

def lift(v): return V.lift(v)

class Ref:
    def __init__(self, form, scalar="float64"):
        self.fd = ufl.algorithms.compute_form_data(form, do_apply_function_pullbacks=True, do_apply_integral_scaling=True,
            do_apply_geometry_lowering=True, preserve_geometry_types=(ufl.classes.Jacobian,), do_apply_restrictions=True,
            do_append_everywhere_integrals=False, complex_mode=False)
    def tab(self, element, pts, nder):
        return element.tabulate(nder, pts)
    def eval_integral(self, itg, i_dofs, W, C, Xs):
        # returns value polynomial for given argument dof tuple
        fd=self.fd
        integrand=itg.integrand(); md=itg.metadata()
        deg = md.get("quadrature_degree", None)
        if deg is None or deg<0: deg=int(np.max(md["estimated_polynomial_degree"]))
        cell=itg.ufl_domain().ufl_cell().cellname
        pts,wts=basix.make_quadrature(basix.CellType[cell], deg)
        tot=lift(0)
        for q in range(len(wts)):
            self.q=(pts[q:q+1], wts[q]); self.args=i_dofs; self.W=W; self.C=C; self.X=Xs
            self.cache={}
            tot = tot + self.ev(integrand, {}, ())
        return tot
    # modified terminal evaluation
    def terminal(self, t, refval, ders, restr, comp):
        pts,wq=self.q
        dom = ufl.domain.extract_unique_domain(t) if not isinstance(t,(ufl.classes.QuadratureWeight,)) else None
        if isinstance(t, ufl.classes.QuadratureWeight): return lift(float(wq))
        if isinstance(t, ufl.classes.Constant):
            off=0
            for c in self.fd.original_form.constants():
                if c==t: break
                off+=int(np.prod(c.ufl_shape))
            fl=0
            for k,cc in zip(t.ufl_shape, comp): fl=fl*k+cc
            return self.C[off+fl]
        if isinstance(t, (ufl.classes.Jacobian, ufl.classes.SpatialCoordinate)):
            cel=dom.ufl_coordinate_element(); gdim=cel.reference_value_shape[0]; nn=cel.dim//gdim
            if isinstance(t, ufl.classes.Jacobian):
                i,d=comp[0],comp[1]; ders=(d,)+tuple(ders)
            else: i=comp[0]
            sub=cel.sub_elements[0]
            tdim=dom.topological_dimension
            cnt=tuple(ders.count(k) for k in range(tdim))
            tb=sub.tabulate(len(ders), pts)[basix.index(*cnt)][0]
            return sum((self.X[3*k+i]*float(tb[k]) for k in range(nn)), lift(0))
        if isinstance(t, ufl.classes.FormArgument):
            el=t.ufl_function_space().ufl_element(); tdim=dom.topological_dimension
            cnt=tuple(ders.count(k) for k in range(tdim))
            fl=0
            for k,cc in zip(el.reference_value_shape, comp): fl=fl*k+cc
            tb=el.tabulate(len(ders), pts)[basix.index(*cnt)][0]   # shape (ndofs*vs?) -> basix.ufl returns (npts, ndofs*vsize)
            vs=int(np.prod(el.reference_value_shape)) if el.reference_value_shape else 1
            nd=el.dim
            vals=[tb[k*vs+fl] if False else tb.reshape(nd, vs)[k,fl] if False else None for k in range(nd)]
            tbl=np.asarray(tb).reshape(-1)
            # basix.ufl tabulate: shape (nderivs, npts, ndofs*vs) laid out [dof*? ] -> use (npts, vs*nd) with index fl*nd + k? probe
            vals=[tbl[k*vs+fl] for k in range(nd)] if vs==1 else [tbl[k*vs+fl] for k in range(nd)]
            if isinstance(t, ufl.classes.Argument):
                return lift(float(vals[self.args[t.number()]]))
            off=0
            for c_,e_ in zip(self.fd.reduced_coefficients, self.fd.coefficient_elements):
                if c_==t: break
                off+=e_.dim
            return sum((self.W[off+k]*float(vals[k]) for k in range(nd)), lift(0))
        raise NotImplementedError(type(t))
    def ev(self, e, ib, comp):
        # ib: index bindings {Index count: int}; comp: tuple of fixed component ints to apply to tensor-valued e
        if isinstance(e,(IntValue,FloatValue)): return lift(float(e))
        if isinstance(e, Zero): return lift(0)
        if isinstance(e, Sum): return self.ev(e.ufl_operands[0],ib,comp)+self.ev(e.ufl_operands[1],ib,comp)
        if isinstance(e, Product): return self.ev(e.ufl_operands[0],ib,())*self.ev(e.ufl_operands[1],ib,())
        if isinstance(e, Division): return self.ev(e.ufl_operands[0],ib,())/self.ev(e.ufl_operands[1],ib,())
        if isinstance(e, Abs): return p6.NP.abs(self.ev(e.ufl_operands[0],ib,()))
        if isinstance(e, Indexed):
            A,mi=e.ufl_operands
            c=tuple(int(i) if isinstance(i,FixedIndex) else ib[i.count()] for i in mi)
            return self.ev(A, ib, c+comp)
        if isinstance(e, IndexSum):
            s_,mi=e.ufl_operands; idx=mi[0]; d=e.dimension()
            tot=lift(0)
            for k in range(d):
                ib2=dict(ib); ib2[idx.count()]=k; tot=tot+self.ev(s_,ib2,comp)
            return tot
        if isinstance(e, ComponentTensor):
            s_,mi=e.ufl_operands; n=len(mi)
            ib2=dict(ib)
            for i,cv in zip(mi, comp[:n]): ib2[i.count()]=cv
            return self.ev(s_, ib2, comp[n:])
        if isinstance(e, ListTensor):
            return self.ev(e.ufl_operands[comp[0]], ib, comp[1:])
        # modified terminal
        t=e; refval=False; nd=0; restr=None
        k=0
        while not t._ufl_is_terminal_:
            if isinstance(t, ReferenceValue): refval=True
            elif isinstance(t, ReferenceGrad): nd+=1
            elif isinstance(t, Restricted): restr=t._side
            else: raise NotImplementedError(type(t))
            t=t.ufl_operands[0]
        ders=comp[len(comp)-nd:] if nd else ()
        base=comp[:len(comp)-nd] if nd else comp
        return self.terminal(t, refval, ders, restr, base)

def qtol(D, ctx, tol, B=2.0, rinv=20.0, sabs=50.0):
    # LRA monomial abstraction
    s=z3.Solver(); terms=D.p.terms(); gens=ctx.R.gens
    rset=set(ctx.r); sset=set(ctx.s)
    acc=0; mv=[]
    tot_bound=0.0
    for i,(mon,c) in enumerate(terms):
        bound=1.0
        for g,e_ in zip(gens,mon):
            if e_: bound*= (rinv if g in rset else sabs if g in sset else B)**e_
        v=z3.Real(f"m{i}"); s.add(v<=bound, v>=-bound)
        acc = acc + z3.RealVal(str(Fraction(int(c.numerator),int(c.denominator))))*v
        tot_bound += abs(float(c))*bound
    s.add(z3.Or(acc>tol, acc<-tol))
    t=time.time(); r=s.check(); return str(r), time.time()-t, tot_bound, len(terms)

def run(cell, deg, gdeg, mk):
    gd = {"triangle":2,"quadrilateral":2,"tetrahedron":3}[cell]
    el = basix.ufl.element("Lagrange", cell, deg)
    cel = basix.ufl.element("Lagrange", cell, gdeg, shape=(gd,))
    dom = ufl.Mesh(cel); V_ = ufl.FunctionSpace(dom, el)
    u,v = ufl.TrialFunction(V_), ufl.TestFunction(V_); f=ufl.Coefficient(V_); k=ufl.Constant(dom)
    a = mk(u,v,f,k)
    code,_ = compile_ufl_objects([a], get_options({"language":"numba"}), namespace="x")
    n=el.dim; nx=3*(cel.dim//gd)
    t=time.time(); A=sym_kernel(code[0], n*n, n, 1, nx); tk=time.time()-t
    ctx=p6.CTX
    ref=Ref(a)
    W=[V(g) for g in ctx.w]; C=[V(g) for g in ctx.c]; X=[V(g) for g in ctx.x]
    itg=ref.fd.integral_data[0].integrals[0]
    t=time.time(); worst=0; res=[]
    for i in range(n):
        for j in range(n):
            Rij=ref.eval_integral(itg,(i,j),W,C,X)
            D=A[i*n+j]-Rij
            res.append(qtol(D,ctx,1e-6))
    tr=time.time()-t
    print(cell,deg,gdeg,"ksym",round(tk,2),"ref+solve",round(tr,2),"verdicts",set(r[0] for r in res),"max noise bound",max(r[2] for r in res),"max terms D",max(r[3] for r in res),"atoms",len(ctx.inv),len(ctx.abs))
    # mutation twin: perturb kernel entry
    D=A[1]-ref.eval_integral(itg,(0,1),W,C,X) + V(ctx.w[0])*V(ctx.c[0])*lift(1e-3)
    print("  twin:", qtol(D,ctx,1e-6)[0])

poisson=lambda u,v,f,k: k*f*ufl.inner(ufl.grad(u),ufl.grad(v))*ufl.dx
mass=lambda u,v,f,k: k*f*u*v*ufl.dx
run("triangle",1,1,poisson)
run("triangle",2,1,mass)
run("quadrilateral",1,1,mass)
run("quadrilateral",1,1,poisson)
run("triangle",1,2,poisson)
