import ffcx.codegeneration.lnodes as L

def ev(e, env):
    if isinstance(e, L.LiteralFloat) or isinstance(e, L.LiteralInt): return e.value
    if isinstance(e, L.Symbol): return env[e.name]
    if isinstance(e, L.Neg): return -ev(e.arg, env)
    if isinstance(e, L.Add): return ev(e.lhs, env) + ev(e.rhs, env)
    if isinstance(e, L.Sub): return ev(e.lhs, env) - ev(e.rhs, env)
    if isinstance(e, L.Mul): return ev(e.lhs, env) * ev(e.rhs, env)
    if isinstance(e, L.Div): return ev(e.lhs, env) / ev(e.rhs, env)
    raise TypeError(type(e))

def mk(kind: int, v: float, n: int):
    if kind == 0: return L.LiteralFloat(v)
    if kind == 1: return L.LiteralInt(n)
    if kind == 2: return L.Symbol("a", L.DataType.REAL)
    if kind == 3: return L.Neg(L.Symbol("b", L.DataType.REAL))
    return L.Mul(L.Symbol("a", L.DataType.REAL), L.Symbol("b", L.DataType.REAL))

def check_mul(k1: int, v1: float, n1: int, k2: int, v2: float, n2: int, a: float, b: float) -> bool:
    """
    pre: 0 <= k1 <= 4 and 0 <= k2 <= 4
    pre: -1000 < v1 < 1000 and -1000 < v2 < 1000 and -1000 < a < 1000 and -1000 < b < 1000
    pre: -1000 < n1 < 1000 and -1000 < n2 < 1000
    post: _
    """
    x = mk(k1, v1, n1); y = mk(k2, v2, n2)
    env = {"a": a, "b": b}
    return ev(x * y, env) == ev(x, env) * ev(y, env)

def check_sub_bug(k1: int, v1: float, n1: int, k2: int, v2: float, n2: int, a: float, b: float) -> bool:
    """
    pre: 0 <= k1 <= 4 and 0 <= k2 <= 4
    pre: -1000 < v1 < 1000 and -1000 < v2 < 1000 and -1000 < a < 1000 and -1000 < b < 1000
    pre: -1000 < n1 < 1000 and -1000 < n2 < 1000
    post: _
    """
    x = mk(k1, v1, n1); y = mk(k2, v2, n2)
    env = {"a": a, "b": b}
    r = x - y
    if isinstance(y, L.Neg) and not L.is_zero_lexpr(x):
        r = L.Sub(x, y.arg)   # injected bug
    return ev(r, env) == ev(x, env) - ev(y, env)
