import basix.ufl, ufl, numpy as np
from ffcx.compiler import compile_ufl_objects
from ffcx.options import get_options
cell="triangle"
el = basix.ufl.element("Lagrange", cell, 1)
dom = ufl.Mesh(basix.ufl.element("Lagrange", cell, 1, shape=(2,)))
V = ufl.FunctionSpace(dom, el)
u,v = ufl.TrialFunction(V), ufl.TestFunction(V)
f = ufl.Coefficient(V); k = ufl.Constant(dom)
a = k*f*ufl.inner(ufl.grad(u), ufl.grad(v))*ufl.dx + ufl.jump(u)*ufl.jump(v)*ufl.dS
code, sfx = compile_ufl_objects([a], get_options({}), namespace="x")
print(code[1])
