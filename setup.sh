#!/bin/bash
# Build the overlay interpreter /verif/.venv (offline, idempotent).
# /venv (the repository's environment) is left untouched; the overlay sees its
# site-packages and /repo through a .pth file and adds the solver wheels.
set -e
cd "$(dirname "$0")"
V=/verif/.venv
STAMP=$V/.ok
if [ -f "$STAMP" ] && $V/bin/python -c "import z3, crosshair, ffcx, pycparser" 2>/dev/null; then
  exit 0
fi
(
  flock 9
  if [ -f "$STAMP" ] && $V/bin/python -c "import z3, crosshair, ffcx, pycparser" 2>/dev/null; then exit 0; fi
  rm -rf $V
  /venv/bin/python -m venv $V
  SP=$($V/bin/python -c "import sysconfig; print(sysconfig.get_paths()['purelib'])")
  printf '/venv/lib/python3.12/site-packages\n/repo\n' > $SP/verif_overlay.pth
  PIP_NO_INDEX=1 $V/bin/pip install -q --no-index --find-links /opt/veriftools/wheels crosshair-tool z3-solver cvc5 >/dev/null 2>&1 || \
  PIP_NO_INDEX=1 $V/bin/pip install -q --no-index --find-links /opt/veriftools/wheels crosshair-tool z3-solver
  $V/bin/python -c "import z3, crosshair, ffcx, pycparser"
  touch $STAMP
) 9>/verif/.venv.lock
