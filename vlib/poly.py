"""Exact value domain for symbolic execution of generated kernels.

Poly  : sparse polynomial over Q in *variables* registered in a Ctx
        (kernel inputs and atoms).  mono = sorted tuple of variable ids with
        repetition, () is the constant monomial.
CPoly : pair (re, im) of Poly for complex kernels.
Ctx   : variable table; atoms stand for non-polynomial operations
        (inv, abs, sqrt, comparisons, math functions) and are identified up
        to a scalar factor when their arguments agree to ATOL.
"""

from __future__ import annotations

import math
import cmath
import time
from fractions import Fraction

ATOL = 1e-11
F0 = Fraction(0)
F1 = Fraction(1)


class KsymError(Exception):
    """Front-end / interpreter cannot handle a construct (harness error)."""


class BudgetExceeded(Exception):
    """Polynomial size / time budget of one case exceeded (reported as outside, never as held)."""


DEADLINE = [None]  # wall-clock deadline of the current case (set by the driver)
MAX_PRODUCT = 3_000_000  # len(a)*len(b) above which a single product is refused


def frac(x) -> Fraction:
    if isinstance(x, Fraction):
        return x
    if isinstance(x, int):
        return Fraction(x)
    if isinstance(x, float):
        if x != x or x in (float("inf"), float("-inf")):
            raise KsymError(f"non-finite literal {x}")
        return Fraction(x)  # exact dyadic value of the double
    raise TypeError(type(x))


class Var:
    __slots__ = ("id", "name", "kind", "lo", "hi", "defn", "boolean")

    def __init__(self, id, name, kind, lo, hi, defn=None, boolean=False):
        self.id, self.name, self.kind, self.lo, self.hi, self.defn, self.boolean = id, name, kind, lo, hi, defn, boolean


class Ctx:
    """Variable/atom table shared by the kernel executor and the oracle."""

    def __init__(self, box=2.0, delta=0.05):
        self.vars: list[Var] = []
        self.byname: dict[str, int] = {}
        self.atoms: dict[str, list[int]] = {}
        self.boolset: set[int] = set()
        self.box = box
        self.delta = delta
        self.havoc_count = 0

    # ---- variables
    def new_var(self, name, kind, lo, hi, defn=None, boolean=False) -> "Poly":
        if name in self.byname:
            return Poly({(self.byname[name],): F1}, self)
        v = Var(len(self.vars), name, kind, lo, hi, defn, boolean)
        self.vars.append(v)
        self.byname[name] = v.id
        if boolean:
            self.boolset.add(v.id)
        return Poly({(v.id,): F1}, self)

    def inp(self, name, kind="in", lo=None, hi=None) -> "Poly":
        lo = -self.box if lo is None else lo
        hi = self.box if hi is None else hi
        return self.new_var(name, kind, lo, hi)

    def havoc(self, why) -> "Poly":
        self.havoc_count += 1
        return self.new_var(f"havoc{self.havoc_count}<{why}>", "havoc", -1e30, 1e30)

    def const(self, c) -> "Poly":
        c = frac(c)
        return Poly({(): c} if c else {}, self)

    # ---- interval bound of a polynomial (max abs)
    def bound(self, p: "Poly") -> float:
        tot = 0.0
        for m, c in p.t.items():
            b = abs(float(c))
            for v in m:
                vv = self.vars[v]
                b *= max(abs(vv.lo), abs(vv.hi))
            tot += b
        return tot

    # ---- atoms
    def _match(self, kind, arg: "Poly"):
        """Find an existing atom of this kind whose argument is lam*arg_existing."""
        for vid in self.atoms.get(kind, ()):
            q = self.vars[vid].defn[1][0]
            lam = _scalar_multiple(arg, q)
            if lam is not None:
                return vid, lam
        return None, None

    def _new_atom(self, kind, args, lo, hi, boolean=False):
        n = len(self.atoms.get(kind, ()))
        p = self.new_var(f"{kind}#{n}", "atom", lo, hi, (kind, tuple(args)), boolean)
        self.atoms.setdefault(kind, []).append(self.byname[f"{kind}#{n}"])
        return p

    def inv(self, p: "Poly") -> "Poly":
        if p.is_const():
            c = p.const_value()
            if c == 0:
                raise KsymError("division by constant zero")
            return self.const(1 / c)
        vid, lam = self._match("inv", p)
        if vid is not None:
            return Poly({(vid,): 1 / lam}, self)
        return self._new_atom("inv", (p,), -1.0 / self.delta, 1.0 / self.delta)

    def abs(self, p: "Poly") -> "Poly":
        if p.is_const():
            return self.const(abs(p.const_value()))
        vid, lam = self._match("abs", p)
        if vid is not None:
            return Poly({(vid,): abs(lam)}, self)
        return self._new_atom("abs", (p,), 0.0, self.bound(p))

    def sqrt(self, p: "Poly") -> "Poly":
        if p.is_const():
            c = p.const_value()
            if c < 0:
                raise KsymError("sqrt of negative constant")
            r = _exact_sqrt(c)
            return self.const(r if r is not None else Fraction(math.sqrt(float(c))))
        vid, lam = self._match("sqrt", p)
        if vid is not None and lam > 0:
            r = _exact_sqrt(lam)
            if r is None and abs(float(lam) - 1) <= 10 * ATOL:
                r = F1
            if r is not None:
                return Poly({(vid,): r}, self)
        return self._new_atom("sqrt", (p,), 0.0, math.sqrt(max(self.bound(p), 0.0)))

    def cmp(self, op, p: "Poly") -> "Poly":
        """Indicator of (p op 0), op in lt, le, gt, ge, eq, ne."""
        if op == "gt":
            return self.cmp("lt", -p)
        if op == "ge":
            return self.cmp("le", -p)
        if op == "ne":
            return self.const(1) - self.cmp("eq", p)
        if p.is_const():
            c = p.const_value()
            r = {"lt": c < 0, "le": c <= 0, "eq": c == 0}[op]
            return self.const(1 if r else 0)
        for vid in self.atoms.get(op, ()):
            q = self.vars[vid].defn[1][0]
            lam = _scalar_multiple(p, q)
            if lam is not None and (lam > 0 or op == "eq"):
                return Poly({(vid,): F1}, self)
        return self._new_atom(op, (p,), 0.0, 1.0, boolean=True)

    def fn(self, name, args) -> "Poly":
        """Generic real function atom (exp, sin, pow, atan2, ...)."""
        if all(a.is_const() for a in args):
            try:
                v = _REAL_FUNS[name](*[float(a.const_value()) for a in args])
                return self.const(Fraction(v))
            except Exception:
                raise KsymError(f"cannot evaluate {name} on constants")
        kind = f"fn:{name}"
        for vid in self.atoms.get(kind, ()):
            qs = self.vars[vid].defn[1]
            if len(qs) == len(args) and all(_approx_equal(a, q) for a, q in zip(args, qs)):
                return Poly({(vid,): F1}, self)
        lo, hi = _fun_range(name, [self.bound(a) for a in args], self.delta)
        return self._new_atom(kind, tuple(args), lo, hi)

    def cfn(self, name, args: list["CPoly"]) -> "CPoly":
        """Generic complex function atom: a pair of real atoms (re, im part)."""
        flat = []
        for a in args:
            flat += [a.re, a.im]
        if all(a.is_const() for a in flat):
            zs = [complex(float(a.re.const_value()), float(a.im.const_value())) for a in args]
            v = _CPLX_FUNS[name](*zs)
            return CPoly(self.const(Fraction(v.real)), self.const(Fraction(v.imag)))
        out = []
        for part in ("re", "im"):
            kind = f"cfn:{name}:{part}"
            found = None
            for vid in self.atoms.get(kind, ()):
                qs = self.vars[vid].defn[1]
                if len(qs) == len(flat) and all(_approx_equal(a, q) for a, q in zip(flat, qs)):
                    found = Poly({(vid,): F1}, self)
                    break
            if found is None:
                b = _cfun_bound(name, [self.bound(a) for a in flat], self.delta)
                found = self._new_atom(kind, tuple(flat), -b, b)
            out.append(found)
        return CPoly(out[0], out[1])

    # ---- concrete evaluation
    def evaluator(self, inputs: dict[str, float]):
        """Return function var id -> float, evaluating atoms from their definitions."""
        cache: dict[int, float] = {}

        def val(vid):
            if vid in cache:
                return cache[vid]
            v = self.vars[vid]
            if v.defn is None:
                if v.name not in inputs:
                    raise KsymError(f"no concrete value for {v.name}")
                r = float(inputs[v.name])
            else:
                kind, args = v.defn
                av = [a.eval_with(val) for a in args]
                r = _eval_atom(kind, av)
            cache[vid] = r
            return r

        return val


def _eval_atom(kind, av):
    if kind == "inv":
        return 1.0 / av[0]
    if kind == "abs":
        return abs(av[0])
    if kind == "sqrt":
        return math.sqrt(av[0]) if av[0] >= 0 else float("nan")
    if kind == "lt":
        return 1.0 if av[0] < 0 else 0.0
    if kind == "le":
        return 1.0 if av[0] <= 0 else 0.0
    if kind == "eq":
        return 1.0 if av[0] == 0 else 0.0
    if kind.startswith("fn:"):
        try:
            return float(_REAL_FUNS[kind[3:]](*av))
        except (ValueError, OverflowError, ZeroDivisionError):
            return float("nan")
    if kind.startswith("cfn:"):
        _, name, part = kind.split(":")
        zs = [complex(av[2 * i], av[2 * i + 1]) for i in range(len(av) // 2)]
        try:
            z = _CPLX_FUNS[name](*zs)
        except (ValueError, OverflowError, ZeroDivisionError):
            return float("nan")
        return z.real if part == "re" else z.imag
    raise KsymError(f"unknown atom kind {kind}")


def _bessel(kind):
    def f(n, x):
        import scipy.special as sp

        return float({"j": sp.jv, "y": sp.yv, "i": sp.iv, "k": sp.kv}[kind](int(round(n)), x))

    return f


def _erf(x):
    return math.erf(x)


_REAL_FUNS = {
    "sqrt": math.sqrt,
    "cos": math.cos,
    "sin": math.sin,
    "tan": math.tan,
    "acos": math.acos,
    "asin": math.asin,
    "atan": math.atan,
    "cosh": math.cosh,
    "sinh": math.sinh,
    "tanh": math.tanh,
    "acosh": math.acosh,
    "asinh": math.asinh,
    "atanh": math.atanh,
    "pow": lambda a, b: math.pow(a, b),
    "exp": math.exp,
    "ln": math.log,
    "erf": _erf,
    "atan2": math.atan2,
    "min": min,
    "max": max,
    "bessel_j": _bessel("j"),
    "bessel_y": _bessel("y"),
    "bessel_i": _bessel("i"),
    "bessel_k": _bessel("k"),
}

_CPLX_FUNS = {
    "sqrt": cmath.sqrt,
    "cos": cmath.cos,
    "sin": cmath.sin,
    "tan": cmath.tan,
    "acos": cmath.acos,
    "asin": cmath.asin,
    "atan": cmath.atan,
    "cosh": cmath.cosh,
    "sinh": cmath.sinh,
    "tanh": cmath.tanh,
    "acosh": cmath.acosh,
    "asinh": cmath.asinh,
    "atanh": cmath.atanh,
    "pow": lambda a, b: a**b if a != 0 else (0j if b != 0 else 1 + 0j),
    "exp": cmath.exp,
    "ln": cmath.log,
}


def _fun_range(name, bs, delta):
    b = bs[0] if bs else 1.0
    if name in ("sin", "cos", "tanh", "erf"):
        return -1.0, 1.0
    if name in ("atan", "atan2", "asin", "acos"):
        return -math.pi, math.pi
    if name == "exp":
        return 0.0, math.exp(min(b, 50.0))
    if name in ("sinh", "cosh"):
        return -math.cosh(min(b, 50.0)), math.cosh(min(b, 50.0))
    if name == "ln":
        m = max(abs(math.log(delta)), abs(math.log(max(b, delta))))
        return -m, m
    if name in ("asinh", "acosh"):
        m = math.asinh(max(b, 1.0)) + 1.0
        return -m, m
    if name in ("min", "max"):
        m = max(bs)
        return -m, m
    if name == "pow":
        m = max(b, 1.0 / delta) ** max(min(bs[1], 8.0), 1.0)
        return -m, m
    if name in ("tan", "atanh"):
        return -1.0 / delta, 1.0 / delta
    if name.startswith("bessel_j"):
        return -1.0, 1.0
    return -1e3, 1e3


def _cfun_bound(name, bs, delta):
    b = math.hypot(bs[0], bs[1]) if len(bs) >= 2 else 1.0
    if name == "sqrt":
        return math.sqrt(b) + 1e-9
    if name in ("exp", "sin", "cos", "sinh", "cosh"):
        return math.exp(min(b, 50.0))
    if name == "ln":
        return max(abs(math.log(delta)), abs(math.log(max(b, delta)))) + math.pi
    if name == "pow":
        return max(b, 1.0 / delta) ** 8
    return 1e3


def _exact_sqrt(c: Fraction):
    n, d = c.numerator, c.denominator
    rn, rd = math.isqrt(n), math.isqrt(d)
    if rn * rn == n and rd * rd == d:
        return Fraction(rn, rd)
    return None


def _scalar_multiple(p: "Poly", q: "Poly"):
    """Return lam with p ~= lam*q (coefficient-wise within ATOL relative), else None."""
    if not q.t or not p.t:
        return None
    # pivot: largest |coef| of q
    mq, cq = max(q.t.items(), key=lambda kv: (abs(kv[1]), kv[0]))
    cp = p.t.get(mq)
    if cp is None:
        return None
    lam = cp / cq
    scale = abs(float(lam)) * abs(float(cq))
    tol = ATOL * scale
    if len(p.t) == len(q.t):
        for m, c in p.t.items():
            c2 = q.t.get(m)
            if c2 is None:
                if abs(float(c)) > tol:
                    return None
            elif c != lam * c2 and abs(float(c - lam * c2)) > tol:
                return None
        if p.t.keys() == q.t.keys():
            if abs(float(lam) - 1.0) <= ATOL:
                return F1
            if abs(float(lam) + 1.0) <= ATOL:
                return -F1
            return lam
    for m in set(p.t) | set(q.t):
        c = p.t.get(m, F0)
        c2 = q.t.get(m, F0)
        if abs(float(c - lam * c2)) > tol:
            return None
    if abs(float(lam) - 1.0) <= ATOL:
        return F1
    if abs(float(lam) + 1.0) <= ATOL:
        return -F1
    return lam


def _approx_equal(p: "Poly", q: "Poly") -> bool:
    if not p.t and not q.t:
        return True
    scale = max([abs(float(c)) for c in p.t.values()] + [abs(float(c)) for c in q.t.values()])
    for m in set(p.t) | set(q.t):
        if abs(float(p.t.get(m, F0) - q.t.get(m, F0))) > ATOL * scale:
            return False
    return True


class Poly:
    __slots__ = ("t", "ctx")

    def __init__(self, t: dict, ctx: Ctx):
        self.t = t
        self.ctx = ctx

    # -- predicates
    def is_zero(self):
        return not self.t

    def is_const(self):
        return not self.t or (len(self.t) == 1 and () in self.t)

    def const_value(self) -> Fraction:
        return self.t.get((), F0)

    def nterms(self):
        return len(self.t)

    def vars(self) -> set:
        s = set()
        for m in self.t:
            s.update(m)
        return s

    # -- arithmetic
    def _lift(self, o):
        if isinstance(o, Poly):
            return o
        if isinstance(o, (int, float, Fraction)):
            return self.ctx.const(o)
        return NotImplemented

    def __add__(self, o):
        if isinstance(o, CPoly):
            return CPoly(self + o.re, o.im)
        o = self._lift(o)
        if o is NotImplemented:
            return o
        if not o.t:
            return self
        if not self.t:
            return o
        a, b = (self.t, o.t) if len(self.t) >= len(o.t) else (o.t, self.t)
        r = dict(a)
        for m, c in b.items():
            s = r.get(m)
            if s is None:
                r[m] = c
            else:
                s = s + c
                if s:
                    r[m] = s
                else:
                    del r[m]
        return Poly(r, self.ctx)

    __radd__ = __add__

    def __neg__(self):
        return Poly({m: -c for m, c in self.t.items()}, self.ctx)

    def __sub__(self, o):
        if isinstance(o, CPoly):
            return CPoly(self - o.re, -o.im)
        o = self._lift(o)
        if o is NotImplemented:
            return o
        return self + (-o)

    def __rsub__(self, o):
        return (-self) + o

    def __mul__(self, o):
        if isinstance(o, CPoly):
            return CPoly(self * o.re, self * o.im)
        o = self._lift(o)
        if o is NotImplemented:
            return o
        a, b = self.t, o.t
        if not a or not b:
            return Poly({}, self.ctx)
        if len(a) < len(b):
            a, b = b, a
        if len(b) == 1:
            (mb, cb), = b.items()
            if mb == ():
                if cb == 1:
                    return Poly(dict(a), self.ctx)
                return Poly({m: c * cb for m, c in a.items()}, self.ctx)
        work = len(a) * len(b)
        if work > 20000:
            if work > MAX_PRODUCT:
                raise BudgetExceeded(f"product of {len(a)} x {len(b)} monomials")
            if DEADLINE[0] is not None and time.time() > DEADLINE[0]:
                raise BudgetExceeded("time budget of the case")
        bs = self.ctx.boolset
        r: dict = {}
        for mb, cb in b.items():
            for ma, ca in a.items():
                if not mb:
                    m = ma
                elif not ma:
                    m = mb
                else:
                    m = tuple(sorted(ma + mb))
                    if bs:
                        m = _dedupe_bool(m, bs)
                c = ca * cb
                s = r.get(m)
                if s is None:
                    r[m] = c
                else:
                    s = s + c
                    if s:
                        r[m] = s
                    else:
                        del r[m]
        return Poly(r, self.ctx)

    __rmul__ = __mul__

    def __truediv__(self, o):
        if isinstance(o, CPoly):
            return CPoly(self, self.ctx.const(0)) / o
        o = self._lift(o)
        if o is NotImplemented:
            return o
        return self * self.ctx.inv(o)

    def __rtruediv__(self, o):
        return self._lift(o) / self

    def __pow__(self, n: int):
        r = self.ctx.const(1)
        for _ in range(n):
            r = r * self
        return r

    # -- evaluation
    def eval_with(self, val) -> float:
        tot = 0.0
        for m, c in self.t.items():
            x = float(c)
            for v in m:
                f = val(v)
                if f == 0.0:
                    # an indicator atom that is 0 switches the term off even if another
                    # factor (the branch not taken) is not finite
                    x = 0.0
                    break
                x *= f
            tot += x
        return tot

    def eval(self, inputs: dict) -> float:
        return self.eval_with(self.ctx.evaluator(inputs))

    def subs_zero(self, vids: set) -> "Poly":
        return Poly({m: c for m, c in self.t.items() if not (set(m) & vids)}, self.ctx)

    def __repr__(self):
        if not self.t:
            return "0"
        parts = []
        for m, c in sorted(self.t.items())[:8]:
            parts.append(f"{float(c):.6g}" + "".join("*" + self.ctx.vars[v].name for v in m))
        return " + ".join(parts) + (" + ..." if len(self.t) > 8 else "")


def _dedupe_bool(m, bs):
    out = []
    last = None
    for v in m:
        if v == last and v in bs:
            continue
        out.append(v)
        last = v
    return tuple(out) if len(out) != len(m) else m


class CPoly:
    __slots__ = ("re", "im")

    def __init__(self, re: Poly, im: Poly):
        self.re, self.im = re, im

    @property
    def ctx(self):
        return self.re.ctx

    def _lift(self, o):
        if isinstance(o, CPoly):
            return o
        if isinstance(o, Poly):
            return CPoly(o, o.ctx.const(0))
        if isinstance(o, (int, float, Fraction)):
            return CPoly(self.ctx.const(o), self.ctx.const(0))
        if isinstance(o, complex):
            return CPoly(self.ctx.const(o.real), self.ctx.const(o.imag))
        return NotImplemented

    def __add__(self, o):
        o = self._lift(o)
        return CPoly(self.re + o.re, self.im + o.im)

    __radd__ = __add__

    def __neg__(self):
        return CPoly(-self.re, -self.im)

    def __sub__(self, o):
        o = self._lift(o)
        return CPoly(self.re - o.re, self.im - o.im)

    def __rsub__(self, o):
        return self._lift(o) - self

    def __mul__(self, o):
        o = self._lift(o)
        if o.im.is_zero():
            return CPoly(self.re * o.re, self.im * o.re)
        if self.im.is_zero():
            return CPoly(self.re * o.re, self.re * o.im)
        return CPoly(self.re * o.re - self.im * o.im, self.re * o.im + self.im * o.re)

    __rmul__ = __mul__

    def __truediv__(self, o):
        o = self._lift(o)
        if o.im.is_zero():
            i = self.ctx.inv(o.re)
            return CPoly(self.re * i, self.im * i)
        n2 = o.re * o.re + o.im * o.im
        i = self.ctx.inv(n2)
        num = self * CPoly(o.re, -o.im)
        return CPoly(num.re * i, num.im * i)

    def __rtruediv__(self, o):
        return self._lift(o) / self

    def conj(self):
        return CPoly(self.re, -self.im)

    def is_zero(self):
        return self.re.is_zero() and self.im.is_zero()

    def nterms(self):
        return self.re.nterms() + self.im.nterms()

    def vars(self):
        return self.re.vars() | self.im.vars()

    def eval_with(self, val) -> complex:
        return complex(self.re.eval_with(val), self.im.eval_with(val))

    def eval(self, inputs):
        return self.eval_with(self.ctx.evaluator(inputs))

    def __repr__(self):
        return f"({self.re!r}) + i({self.im!r})"


def parts(v):
    """(re, im) Polys of any value."""
    if isinstance(v, CPoly):
        return v.re, v.im
    return v, v.ctx.const(0)


def real_part(v):
    return v.re if isinstance(v, CPoly) else v
