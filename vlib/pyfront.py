"""numba front-end: generated *_numba.py text -> stdlib ast -> kernel IR + descriptors."""

from __future__ import annotations

import ast
import math
import types

import numpy as np

from .cfront import Kernel
from .gen import ITYPES
from .poly import KsymError


class InvalidPython(Exception):
    pass


class PyModule:
    def __init__(self):
        self.kernels = {}
        self.integrals = {}
        self.forms = []
        self.expressions = {}
        self.lists = {}
        self.imports = set()
        self.unresolved_calls = []
        self.text = ""


class PyIntegral:
    def __init__(self, name, attrs):
        self.name = name
        self.enabled = attrs.get("enabled_coefficients") or []
        self.kernel_name = attrs.get("tabulate_tensor")
        self.needs_perm = bool(attrs.get("needs_facet_permutations"))
        self.ce_hash = attrs.get("coordinate_element_hash")
        import basix

        self.domain = basix.CellType(int(attrs.get("domain"))).name
        self.raw = attrs


class PyForm:
    def __init__(self, name, attrs, lists):
        def L(key):
            v = attrs.get(key)
            if isinstance(v, tuple) and v[0] == "name":
                return lists.get(v[1])
            return v

        self.name = name
        self.rank = attrs.get("rank")
        self.num_coefficients = attrs.get("num_coefficients")
        self.num_constants = attrs.get("num_constants")
        self.signature = attrs.get("signature")
        self.ocp = L("original_coefficient_positions") or []
        self.offsets = L("form_integral_offsets")
        self.ids = L("form_integral_ids") or []
        self.integral_names = [x[1] if isinstance(x, tuple) else x for x in (L("form_integrals") or [])]
        self.coefficient_names = L("coefficient_name_map") or []
        self.constant_names = L("constant_name_map") or []
        self.constant_ranks = L("constant_ranks") or []
        self.constant_shapes = L("constant_shapes") or []
        self.fe_hashes = L("finite_element_hashes") or []

    def entries(self):
        out = []
        for t, it in enumerate(ITYPES):
            for k in range(self.offsets[t], self.offsets[t + 1]):
                out.append((it, self.ids[k], self.integral_names[k]))
        return out

    def kernels_for(self, itype, sid):
        t = ITYPES.index(itype)
        return [self.integral_names[k] for k in range(self.offsets[t], self.offsets[t + 1]) if self.ids[k] == sid]


def _dotted(n):
    if isinstance(n, ast.Name):
        return n.id
    if isinstance(n, ast.Attribute):
        b = _dotted(n.value)
        return None if b is None else b + "." + n.attr
    return None


DT = {"np.float64": "real", "np.float32": "real", "np.complex128": "complex", "np.complex64": "complex",
      "np.int32": "int", "np.int64": "int", "np.intc": "int", "np.bool_": "bool", "np.bool": "bool", "np.uint8": "int"}


class _Conv:
    def __init__(self, mod: PyModule):
        self.mod = mod

    def expr(self, n):
        if isinstance(n, ast.Constant):
            if isinstance(n.value, (bool, int, float, complex)):
                return ("num", n.value)
            raise KsymError(f"constant {n.value!r}")
        if isinstance(n, ast.Name):
            return ("id", n.id)
        if isinstance(n, ast.Subscript):
            b = _dotted(n.value)
            if b is None:
                raise KsymError("subscript of expression")
            sl = n.slice
            idx = [self.expr(e) for e in sl.elts] if isinstance(sl, ast.Tuple) else [self.expr(sl)]
            return ("idx", b, idx)
        if isinstance(n, ast.BinOp):
            op = {ast.Add: "+", ast.Sub: "-", ast.Mult: "*", ast.Div: "/", ast.Mod: "%"}.get(type(n.op))
            if op is None:
                if isinstance(n.op, ast.Pow):
                    return ("call", "np.power", [self.expr(n.left), self.expr(n.right)])
                raise KsymError(f"operator {type(n.op).__name__}")
            return ("bin", op, self.expr(n.left), self.expr(n.right))
        if isinstance(n, ast.UnaryOp):
            op = {ast.USub: "-", ast.UAdd: "+", ast.Not: "!"}.get(type(n.op))
            if op is None:
                raise KsymError(f"unary {type(n.op).__name__}")
            return ("un", op, self.expr(n.operand))
        if isinstance(n, ast.Compare):
            if len(n.ops) != 1:
                raise KsymError("chained comparison")
            op = {ast.Lt: "<", ast.Gt: ">", ast.LtE: "<=", ast.GtE: ">=", ast.Eq: "==", ast.NotEq: "!="}[type(n.ops[0])]
            return ("bin", op, self.expr(n.left), self.expr(n.comparators[0]))
        if isinstance(n, ast.BoolOp):
            op = "&&" if isinstance(n.op, ast.And) else "||"
            e = self.expr(n.values[0])
            for v in n.values[1:]:
                e = ("bin", op, e, self.expr(v))
            return e
        if isinstance(n, ast.IfExp):
            return ("cond", self.expr(n.test), self.expr(n.body), self.expr(n.orelse))
        if isinstance(n, ast.Call):
            f = _dotted(n.func)
            if f is None:
                raise KsymError("indirect call")
            self.check_callable(f, n)
            return ("call", f, [self.expr(a) for a in n.args])
        if isinstance(n, ast.Attribute):
            f = _dotted(n)
            # a bare function object used as a value (e.g. scipy.special.jn without arguments)
            self.mod.unresolved_calls.append((f, getattr(n, "lineno", None), "function object used as a value"))
            raise KsymError(f"attribute {f} used as a value")
        if isinstance(n, (ast.List, ast.Tuple)):
            return ("init", [self.expr(e) for e in n.elts])
        raise KsymError(f"expression node {type(n).__name__}")

    def check_callable(self, f, node):
        root = f.split(".")[0]
        if root == "np":
            if not hasattr(np, f.split(".", 1)[1].split(".")[0]):
                self.mod.unresolved_calls.append((f, node.lineno, "numpy has no such attribute"))
        elif root == "math":
            if not hasattr(math, f.split(".", 1)[1]):
                self.mod.unresolved_calls.append((f, node.lineno, "math has no such attribute"))
        elif root in ("numba", "range"):
            pass
        elif root not in self.mod.imports:
            self.mod.unresolved_calls.append((f, node.lineno, "module not imported by the generated file"))

    def shape_of(self, n):
        if isinstance(n, (ast.Tuple, ast.List)):
            return [self.const_int(e) for e in n.elts]
        return [self.const_int(n)]

    def const_int(self, n):
        if isinstance(n, ast.Constant) and isinstance(n.value, int):
            return n.value
        raise KsymError("non-literal array size")

    def dtype(self, call):
        for kw in call.keywords:
            if kw.arg == "dtype":
                d = _dotted(kw.value)
                if d not in DT:
                    raise KsymError(f"dtype {ast.unparse(kw.value)}")
                return DT[d]
        return "real"

    def infer_shape(self, n):
        shape = []
        while isinstance(n, (ast.List, ast.Tuple)):
            shape.append(len(n.elts))
            n = n.elts[0] if n.elts else None
        return shape

    def stmts(self, body, kern):
        out = []
        for s in body:
            out.extend(self.stmt(s, kern))
        return out

    def stmt(self, s, kern):
        line = getattr(s, "lineno", None)
        if isinstance(s, ast.Assign):
            if len(s.targets) != 1:
                raise KsymError("multiple assignment")
            t = s.targets[0]
            v = s.value
            if isinstance(t, ast.Name) and isinstance(v, ast.Call):
                f = _dotted(v.func)
                if f == "numba.carray":
                    src = v.args[0].id
                    size = self.shape_of(v.args[1])
                    kern.declared_sizes[t.id] = int(np.prod(size))
                    return [("alias", t.id, src, int(np.prod(size)), line)]
                if f == "np.array":
                    tc = self.dtype(v)
                    shape = self.infer_shape(v.args[0])
                    return [("decl", t.id, tc, shape, self.expr(v.args[0]), {"const"}, line)]
                if f == "np.full":
                    tc = self.dtype(v)
                    fv = v.args[1]
                    while isinstance(fv, (ast.List, ast.Tuple)) and len(fv.elts) == 1:
                        fv = fv.elts[0]  # numpy broadcasts a nested one-element fill value to every entry
                    if isinstance(fv, (ast.List, ast.Tuple)):
                        raise KsymError("np.full with a non-scalar fill value")
                    return [("decl", t.id, tc, self.shape_of(v.args[0]), ("fill", self.expr(fv)), set(), line)]
                if f in ("np.empty",):
                    return [("decl", t.id, self.dtype(v), self.shape_of(v.args[0]), None, set(), line)]
                if f in ("np.zeros",):
                    return [("decl", t.id, self.dtype(v), self.shape_of(v.args[0]), ("fill", ("num", 0)), set(), line)]
            if isinstance(t, ast.Name):
                return [("assign", ("id", t.id), "=", self.expr(v), line)]
            if isinstance(t, ast.Subscript):
                return [("assign", self.expr(t), "=", self.expr(v), line)]
            raise KsymError("assignment target")
        if isinstance(s, ast.AugAssign):
            op = {ast.Add: "+=", ast.Sub: "-=", ast.Mult: "*=", ast.Div: "/="}.get(type(s.op))
            if op is None:
                raise KsymError("augmented operator")
            tgt = self.expr(s.target)
            return [("assign", tgt, op, self.expr(s.value), line)]
        if isinstance(s, ast.For):
            if not (isinstance(s.iter, ast.Call) and _dotted(s.iter.func) == "range" and isinstance(s.target, ast.Name)):
                raise KsymError("for over non-range")
            a = s.iter.args
            b, e = (("num", 0), self.expr(a[0])) if len(a) == 1 else (self.expr(a[0]), self.expr(a[1]))
            return [("for", s.target.id, b, e, self.stmts(s.body, kern), line)]
        if isinstance(s, ast.Expr):
            if isinstance(s.value, ast.Constant):
                return []
            raise KsymError("expression statement")
        if isinstance(s, ast.Pass):
            return []
        if isinstance(s, ast.Return):
            return []
        raise KsymError(f"statement node {type(s).__name__}")


def _literal(n):
    try:
        return ast.literal_eval(n)
    except Exception:
        if isinstance(n, ast.Name):
            return ("name", n.id)
        if isinstance(n, (ast.List, ast.Tuple)):
            return [_literal(e) for e in n.elts]
        return ("expr", ast.unparse(n))


def parse_numba(text: str) -> PyModule:
    m = PyModule()
    m.text = text
    try:
        tree = ast.parse(text)
    except SyntaxError as e:
        raise InvalidPython(f"generated module is not valid Python: {e.msg} (line {e.lineno}: {(e.text or '').strip()[:80]})")
    conv = _Conv(m)
    for node in ast.walk(tree):
        if isinstance(node, ast.Import):
            for a in node.names:
                m.imports.add((a.asname or a.name).split(".")[0])
        elif isinstance(node, ast.ImportFrom):
            for a in node.names:
                m.imports.add(a.asname or a.name)
    for node in tree.body:
        if isinstance(node, ast.FunctionDef) and node.name.startswith("tabulate_tensor"):
            params = [{"name": a.arg, "ctype": None, "tclass": None, "ptr": True, "const": False} for a in node.args.args]
            k = Kernel(node.name, params, None, "py", None)
            k.body = conv.stmts(node.body, k)
            m.kernels[node.name] = k
        elif isinstance(node, ast.Assign) and len(node.targets) == 1 and isinstance(node.targets[0], ast.Name):
            m.lists[node.targets[0].id] = _literal(node.value)
        elif isinstance(node, ast.ClassDef):
            attrs = {}
            for st in node.body:
                if isinstance(st, ast.Assign) and isinstance(st.targets[0], ast.Name):
                    v = _literal(st.value)
                    if isinstance(v, tuple) and v[0] == "name" and st.targets[0].id == "tabulate_tensor":
                        v = v[1]
                    attrs[st.targets[0].id] = v
            if node.name.startswith("integral_"):
                m.integrals[node.name] = PyIntegral(node.name, attrs)
            elif node.name.startswith("form_"):
                m.forms.append((node.name, attrs))
            elif node.name.startswith("expression_"):
                m.expressions[node.name] = attrs
    m.forms = [PyForm(n, a, m.lists) for n, a in m.forms]
    return m


def call_numba_kernel(text, kern, nA, inp, env, ents, perms):
    """Execute the generated module in plain Python (numba.carray replaced by the identity on numpy arrays)."""
    from .ksym import pack
    from .poly import CPoly

    w, c, x = pack(inp, env)
    cplx = any(isinstance(v, complex) and v.imag != 0 for v in list(w) + list(c)) or inp.complex_mode
    st = np.complex128 if cplx else np.float64
    fake = types.SimpleNamespace(carray=lambda a, shape, dtype=None: a, types=None)
    ns = {"__name__": "generated"}
    import sys

    saved = sys.modules.get("numba")
    sys.modules["numba"] = fake
    try:
        exec(compile(text, "<generated numba module>", "exec"), ns)
    finally:
        if saved is None:
            sys.modules.pop("numba", None)
        else:
            sys.modules["numba"] = saved
    A = np.zeros(max(nA, 1), dtype=st)
    fn = ns[kern.name]
    fn(A, np.array(w, dtype=st), np.array(c, dtype=st), np.array(x, dtype=np.float64), np.array(list(ents), dtype=np.intc), np.array(list(perms), dtype=np.uint8), None)
    return A
