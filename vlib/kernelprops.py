"""Per-kernel properties decided on the generated text: purity / accumulate-only (C07)
and memory safety (C08).  Each function analyses every integral kernel of one corpus form."""

from __future__ import annotations

import hashlib
import subprocess
import time
import traceback
from pathlib import Path

import basix
import numpy as np
import z3

from . import cfront, corpus, eqcheck, gen, ksym, uflref
from .formcheck import (assumptions_hold, coeff_scale, entity_configs, full_env, geometry_env, kernel_layout, num_entities,
                        sid_list, split_parts)
from .kir import BudgetExceeded, collect_sites
from .poly import CPoly, Ctx, KsymError, Poly, parts

NPERM = {"point": 1, "interval": 2, "triangle": 6, "quadrilateral": 8}


def _new_res(name):
    return {"name": name, "entries": 0, "kernels": 0, "configs": 0, "queries": {}, "solver_s": 0.0, "inconclusive": [],
            "violations": [], "harness": [], "outside": [], "selfval": 0, "twins_run": 0, "twins_ok": 0, "samples": [],
            "extra": {}}


def _wrap(fn):
    def run(name, spec):
        t0 = time.time()
        res = _new_res(name)
        try:
            fn(name, spec, res)
        except BudgetExceeded as e:
            res["outside"].append(f"{name}: polynomial size {e} over budget")
        except gen.Rejected as e:
            res["outside"].append(f"{name}: rejected by FFCx with {e}")
        except KsymError as e:
            res["harness"].append(f"{name}: ksym: {e}")
        except Exception as e:
            res["harness"].append(f"{name}: {type(e).__name__}: {e}\n{traceback.format_exc()[-1500:]}")
        res["wall"] = time.time() - t0
        return res

    return run


def iter_kernels(name, spec):
    """Yield (form, module, c_text, fref, itd, sid, kernel name, IntegralDesc, Kernel) for each kernel."""
    entry = corpus.REG[name]
    scalar = spec.get("scalar") or entry.get("scalar", "float64")
    options = dict(spec.get("options") or {})
    options["scalar_type"] = scalar
    form = corpus.build(name)
    h, c = gen.compile_c([form], options)
    m = cfront.parse_c(c)
    fd = gen.form_descs(m)[0]
    ids = gen.integral_descs(m)
    fref = uflref.FormRef(form, scalar)
    seen = set()
    for itd in fref.fd.integral_data:
        for sid in sid_list(itd):
            for kn in fd.kernels_for(itd.integral_type, sid):
                if kn in seen:
                    continue
                seen.add(kn)
                idesc = ids[kn]
                kname = idesc.tt.get(scalar)
                if kname is None:
                    continue
                yield form, m, c, fref, itd, sid, kn, idesc, m.kernels[kname]


# ---------------------------------------------------------------------------
# C07


def _free_ids(body, acc=None):
    acc = set() if acc is None else acc

    def ex(e):
        k = e[0]
        if k == "id":
            acc.add(e[1])
        elif k == "idx":
            acc.add(e[1])
            for i in e[2]:
                ex(i)
        elif k == "bin":
            ex(e[2]); ex(e[3])
        elif k == "un":
            ex(e[2])
        elif k == "cond":
            ex(e[1]); ex(e[2]); ex(e[3])
        elif k == "call":
            for a in e[2]:
                ex(a)
        elif k in ("init",):
            for a in e[1]:
                ex(a)

    for st in body:
        if st[0] == "decl":
            if st[4] is not None:
                ex(st[4])
        elif st[0] == "assign":
            ex(st[1]); ex(st[3])
        elif st[0] == "for":
            ex(st[2]); ex(st[3])
            _free_ids(st[4], acc)
        elif st[0] == "block":
            _free_ids(st[1], acc)
    return acc


def _structure(body):
    """(kind, name, line) facts: non-const statics; stores to anything but A / locals."""
    out = []
    scopes = [set()]

    def walk(stmts):
        for st in stmts:
            k = st[0]
            if k == "decl":
                _, nm, tclass, shape, init, quals, line = st
                scopes[-1].add(nm)
                if "static" in quals and "const" not in quals:
                    out.append(("static-nonconst", nm, line))
            elif k == "assign":
                tgt = st[1][1]
                if tgt != "A" and not any(tgt in sc for sc in scopes):
                    out.append(("store-nonlocal", tgt, st[4]))
            elif k == "for":
                scopes.append({st[1]})
                walk(st[4])
                scopes.pop()
            elif k == "block":
                scopes.append(set())
                walk(st[1])
                scopes.pop()

    walk(body)
    return out


@_wrap
def purity(name, spec, res):
    tier = spec.get("tier", "quick")
    stats = eqcheck.QStats()
    for form, m, c, fref, itd, sid, kn, idesc, kern in iter_kernels(name, spec):
        itype = itd.integral_type
        cellname = itd.domain.ufl_cell().cellname
        nw, nc, nx, shape, nA, width, cel = kernel_layout(fref, itd)
        res["kernels"] += 1
        # (iv) file-scope objects: the body may reference only its parameters, locals and libm
        used = _free_ids(kern.body)
        glob = [g for g in used if g in m.global_types and g not in ("NULL",)]
        for g in glob:
            res["violations"].append({"key": f"{name}:{kn}:global:{g}", "what": f"kernel references file-scope object {g}", "replay": None})
        # const-ness of input pointers (declared contract)
        for p in kern.params:
            if p["name"] in ("w", "c", "coordinate_dofs", "entity_local_index", "quadrature_permutation") and not p["const"]:
                res["violations"].append({"key": f"{name}:{kn}:param-not-const:{p['name']}", "what": f"input parameter {p['name']} is not pointer-to-const", "replay": None})
        # structural monitors on the whole body (no execution needed; hold for every path)
        for kind, nm, line in _structure(kern.body):
            if kind == "static-nonconst":
                res["violations"].append({"key": f"{name}:{kn}:static:{nm}", "what": f"non-const static {nm} (line {line}): state shared between calls/threads", "replay": None})
            elif kind == "store-nonlocal":
                res["violations"].append({"key": f"{name}:{kn}:write:{nm}", "what": f"kernel stores to {nm} (line {line}), which is neither A nor a local", "replay": None})
        res["extra"]["structural_facts"] = res["extra"].get("structural_facts", 0) + 1
        if spec.get("structure_only") or "big" in corpus.REG[name]["tags"]:
            continue
        facet_cell = idesc.domain if itype in ("exterior_facet", "interior_facet") else None
        cfgs = entity_configs(itype, cellname, tier, facet_cell)
        nperm = NPERM.get(facet_cell, 1) if itype == "interior_facet" else 1
        perm_cfgs = [(0, 0)] if nperm == 1 else ([(0, 0), (1, nperm - 1)] if tier == "quick" else [(a, b) for a in range(nperm) for b in range(nperm)][:16])
        for ci, ents in enumerate(cfgs[: (3 if tier == "quick" else len(cfgs))]):
            for perms in perm_cfgs:
                ctx = Ctx()
                inp = uflref.Inputs(ctx, nw, nc, nx, fref.complex_mode)
                kr = ksym.run_kernel(kern, ctx, inp, nA, entities=ents, perms=perms, symbolic_A0=True)
                res["configs"] += 1
                it = kr.interp
                label = f"{name}:{kn[-14:]}:ents={ents}:perm={perms}"
                # (ii) writes only to A and locals
                for e in it.events:
                    if e.kind == "write_input":
                        res["violations"].append({"key": f"{name}:{kn}:write:{e.array}", "what": f"kernel writes to input/table {e.array} (line {e.line})", "replay": None})
                    elif e.kind in ("oob_read", "oob_write"):
                        res["inconclusive"].append(f"{label}: {e} (bounds are C08's subject)")
                # (iii) no havoc (uninitialised read) reaches A
                hav = {v.id for v in ctx.vars if v.kind == "havoc"}
                # (iv) statics
                for s in it.statics_nonconst:
                    res["violations"].append({"key": f"{name}:{kn}:static:{s}", "what": f"non-const static {s} (state survives calls)", "replay": None})
                a0 = {v.id for v in ctx.vars if v.kind == "A0"}
                for i, val in enumerate(kr.A):
                    pr = parts(val)
                    a0i = ctx.inp(f"A0_{i}r", "A0") if fref.complex_mode else ctx.inp(f"A0_{i}", "A0")
                    a0im = ctx.inp(f"A0_{i}i", "A0") if fref.complex_mode else None
                    for part, p in zip(("re", "im"), pr):
                        if part == "im" and not fref.complex_mode:
                            continue
                        T = p - (a0i if part == "re" else a0im)
                        res["entries"] += 1
                        # (i) T independent of every A0 symbol: exists two A0 with different T ?
                        verdict, model = eqcheck.qdep(ctx, T, ("A0_",), stats)
                        if verdict == "sat":
                            res["violations"].append({
                                "key": f"{name}:{kn}:A[{i}]:depends-on-A0",
                                "what": f"A[{i}] final - initial depends on the previous contents of A ({label})",
                                "replay": {"kind": "purity", "name": name, "spec": spec, "kernel": kn, "ents": list(ents), "perms": list(perms), "entry": i},
                            })
                        elif verdict != "unsat":
                            res["inconclusive"].append(f"{label} A[{i}]: {verdict}")
                        if hav and (T.vars() & hav):
                            hv = sorted(ctx.vars[v].name for v in (T.vars() & hav))[:3]
                            res["violations"].append({"key": f"{name}:{kn}:A[{i}]:uninitialised", "what": f"uninitialised value reaches A[{i}]: {hv}", "replay": None})
                # vacuity twin: a kernel doing A = A*1 + T' with T' = T + 1e-3*A0 must be caught
                if ci == 0 and nA:
                    res["twins_run"] += 1
                    p0 = parts(kr.A[0])[0]
                    a00 = ctx.inp("A0_0r", "A0") if fref.complex_mode else ctx.inp("A0_0", "A0")
                    v, _ = eqcheck.qdep(ctx, p0 - a00 + a00 * Poly({(): 1}, ctx) * 0.001, ("A0_",), None)
                    if v == "sat":
                        res["twins_ok"] += 1
                    else:
                        res["harness"].append(f"{label}: purity twin not detected")
        if len(res["samples"]) < 2:
            res["samples"].append({"kernel": kern.name, "type": itype, "A_entries": nA, "queries": "Q-dep per A entry: T=A_final-A0 vs A0 symbols"})
    res["queries"] = stats.q
    res["solver_s"] = stats.secs


def replay_purity(p):
    """Run the compiled kernel twice from two different initial A; report if the increments differ."""
    name, spec = p["name"], p["spec"]
    for form, m, c, fref, itd, sid, kn, idesc, kern in iter_kernels(name, spec):
        if kn != p["kernel"]:
            continue
        lib = ksym.build_so(c, "p")
        nw, nc, nx, shape, nA, width, cel = kernel_layout(fref, itd)
        ctx = Ctx()
        inp = uflref.Inputs(ctx, nw, nc, nx, fref.complex_mode)
        env = full_env(ctx, cel, itd.domain.ufl_cell().cellname, width, 3)
        w, cc, x = ksym.pack(inp, env)
        A1 = ksym.call_c_kernel(lib, kern, nA, w, cc, x, p["ents"], p["perms"], A0=np.zeros(nA))
        A2 = ksym.call_c_kernel(lib, kern, nA, w, cc, x, p["ents"], p["perms"], A0=np.full(nA, 7.25))
        d = np.max(np.abs((A2 - 7.25) - A1))
        print("increment from A0=0   :", A1[: min(6, nA)])
        print("increment from A0=7.25:", (A2 - 7.25)[: min(6, nA)])
        bad = d > 1e-9 * max(1.0, float(np.max(np.abs(A1))))
        print("REPRODUCED" if bad else "not reproduced")
        return 1 if bad else 0
    print("kernel not found")
    return 0


# ---------------------------------------------------------------------------
# C08


def _z3_int(e, env, cons, kctx):
    """IR integer expression -> z3 Int term.  env: name -> z3 term."""
    k = e[0]
    if k == "num":
        if not isinstance(e[1], int):
            raise KsymError("non-integer in subscript")
        return z3.IntVal(e[1])
    if k == "id":
        if e[1] in env:
            return env[e[1]]
        raise KsymError(f"subscript uses non-loop identifier {e[1]}")
    if k == "idx":
        nm = e[1]
        if nm in ("entity_local_index", "quadrature_permutation"):
            sub = e[2][0]
            if sub[0] != "num":
                raise KsymError("non-literal subscript of entity/permutation array")
            key = (nm, sub[1])
            if key not in kctx["intin"]:
                v = z3.Int(f"{'e' if nm[0] == 'e' else 'p'}{sub[1]}")
                kctx["intin"][key] = v
            return kctx["intin"][key]
        from .kir import INT_TABLES

        if nm in INT_TABLES:
            # value read from a constant integer table: any entry (range over-approximation);
            # the table access itself is a separate site with its own query
            lo, hi = INT_TABLES[nm]
            kctx["n"] = kctx.get("n", 0) + 1
            v = z3.Int(f"t_{nm}_{kctx['n']}")
            cons += [v >= lo, v <= hi]
            return v
        raise KsymError(f"subscript reads array {nm}")
    if k == "bin":
        a, b = _z3_int(e[2], env, cons, kctx), _z3_int(e[3], env, cons, kctx)
        if e[1] == "+":
            return a + b
        if e[1] == "-":
            return a - b
        if e[1] == "*":
            return a * b
        raise KsymError(f"operator {e[1]} in subscript")
    if k == "un" and e[1] == "-":
        return -_z3_int(e[2], env, cons, kctx)
    raise KsymError(f"subscript expression {k}")


def site_queries(kern, extents, valid_entities, nperm, stats, lang="c"):
    """One QF_LIA query per access site; returns list of (site description, verdict, model)."""
    sites, decls = collect_sites(kern.body, lang)
    out = []
    solver = z3.Solver()
    solver.set("timeout", 20000)
    for si, s in enumerate(sites):
        t0 = time.time()
        kctx = {"intin": {}}
        cons = []
        env = {}
        for li, (var, b, e) in enumerate(s.loops):
            v = z3.Int(f"{var}_{li}")
            lo = _z3_int(b, env, cons, kctx)
            hi = _z3_int(e, env, cons, kctx)
            cons += [v >= lo, v < hi]
            env[var] = v
        idx = [_z3_int(i, env, cons, kctx) for i in s.index]
        for (nm, k), v in kctx["intin"].items():
            if nm == "entity_local_index":
                cons.append(z3.Or(*[v == e for e in valid_entities]))
            else:
                cons += [v >= 0, v < nperm]
        if s.shape is not None:
            shape = s.shape
        elif s.array in extents:
            shape = (extents[s.array],)
        else:
            out.append((f"{s.array} line {s.line}", "unknown-array", None))
            continue
        if len(idx) != len(shape):
            out.append((f"{s.array} line {s.line}", "rank-mismatch", None))
            continue
        inr = z3.And(*[z3.And(i >= 0, i < n) for i, n in zip(idx, shape)]) if idx else z3.BoolVal(True)
        solver.push()
        solver.add(*cons)
        solver.add(z3.Not(inr))
        r = str(solver.check())
        mdl = None
        if r == "sat":
            mm = solver.model()
            mdl = {str(d): mm[d].as_long() for d in mm.decls()}
            mdl["_index"] = [mm.eval(i, model_completion=True).as_long() for i in idx]
            mdl["_shape"] = list(shape)
        solver.pop()
        stats.add("Q-lia", r, time.time() - t0)
        out.append((f"{'write' if s.write else 'read'} {s.array} line {s.line}", r, mdl))
    # reachability twin for the encoding: the same constraints must be satisfiable for some site
    return out, len(sites)


def contract_extents(fref, itd):
    itype = itd.integral_type
    nw, nc, nx, shape, nA, width, cel = kernel_layout(fref, itd)
    return {"A": nA, "w": nw, "c": nc, "coordinate_dofs": nx,
            "entity_local_index": {"cell": 0, "exterior_facet": 1, "interior_facet": 2, "vertex": 1}[itype],
            "quadrature_permutation": 2 if itype == "interior_facet" else 0}


ASAN_DRIVER = r"""
#include <stdlib.h>
#include <stdio.h>
#include <stdint.h>
#include <string.h>
#include <complex.h>
%(proto)s
int main(void){
  %(st)s *A = malloc(sizeof(%(st)s)*%(nA)d + 0); memset(A,0,sizeof(%(st)s)*%(nA)d);
  %(st)s *w = malloc(sizeof(%(st)s)*%(nw)d + 0);
  %(st)s *c = malloc(sizeof(%(st)s)*%(nc)d + 0);
  %(rt)s *x = malloc(sizeof(%(rt)s)*%(nx)d + 0);
  int *e = malloc(sizeof(int)*%(ne)d + 0);
  uint8_t *p = malloc(%(np)d + 0);
  for (int i=0;i<%(nw)d;++i) w[i]=0.5+0.01*i;
  for (int i=0;i<%(nc)d;++i) c[i]=0.3+0.01*i;
  for (int i=0;i<%(nx)d;++i) x[i]=0.1*((i*7)%%11)+0.05*i;
  %(eset)s
  %(pset)s
  %(kname)s(A,w,c,x,%(earg)s,%(parg)s,NULL);
  double s=0; for(int i=0;i<%(nA)d;++i) s+=creal(A[i]);
  printf("ok %%g\n", s);
  return 0;
}
"""


def asan_run(c_text, kern, ext, ents, perms):
    """Compile kernel + driver with ASan/UBSan, exact-size heap buffers.  Returns (failed?, log)."""
    pt = {p["name"]: p["ctype"] for p in kern.params}
    st, rt = pt["A"], pt["coordinate_dofs"]
    proto = f"void {kern.name}({st}* restrict A, const {st}* restrict w, const {st}* restrict c, const {rt}* restrict coordinate_dofs, const int* restrict entity_local_index, const uint8_t* restrict quadrature_permutation, void* custom_data);"
    ne, npm = ext["entity_local_index"], ext["quadrature_permutation"]
    eset = " ".join(f"e[{i}]={ents[i]};" for i in range(ne))
    pset = " ".join(f"p[{i}]={perms[i]};" for i in range(npm))
    drv = ASAN_DRIVER % dict(proto=proto, st=st, rt=rt, nA=ext["A"], nw=ext["w"], nc=ext["c"], nx=ext["coordinate_dofs"],
                             ne=ne, np=npm, eset=eset, pset=pset, kname=kern.name,
                             earg="e" if ne else "NULL", parg="p" if npm else "NULL")
    d = Path("/verif/.work/asan")
    d.mkdir(parents=True, exist_ok=True)
    h = hashlib.sha1((c_text + drv).encode()).hexdigest()[:12]
    kc, dc, exe = d / f"k_{h}.c", d / f"d_{h}.c", d / f"x_{h}"
    kc.write_text(c_text)
    dc.write_text(drv)
    r = subprocess.run(["gcc", "-std=c17", "-g", "-O0", "-fsanitize=address,undefined", "-fno-sanitize-recover=all",
                        "-I" + cfront.UFCX_DIR, str(kc), str(dc), "-o", str(exe), "-lm"], capture_output=True, text=True)
    if r.returncode:
        return None, "build failed: " + r.stderr[-800:]
    r = subprocess.run([str(exe)], capture_output=True, text=True, env={"ASAN_OPTIONS": "detect_leaks=0"})
    for f in (kc, dc, exe):
        f.unlink(missing_ok=True)
    return r.returncode != 0, (r.stderr[-1200:] if r.returncode else r.stdout)


@_wrap
def bounds(name, spec, res):
    stats = eqcheck.QStats()
    nsites = 0
    for form, m, c, fref, itd, sid, kn, idesc, kern in iter_kernels(name, spec):
        itype = itd.integral_type
        cellname = itd.domain.ufl_cell().cellname
        res["kernels"] += 1
        ext = contract_extents(fref, itd)
        facet_cell = idesc.domain if itype in ("exterior_facet", "interior_facet") else None
        ents = sorted({e[0] for e in entity_configs(itype, cellname, "thorough", facet_cell)})
        nperm = NPERM.get(facet_cell, 1) if itype == "interior_facet" else 1
        out, n = site_queries(kern, ext, ents, nperm, stats)
        nsites += n
        res["entries"] += n
        anysat = False
        for desc, verdict, mdl in out:
            if verdict == "unsat":
                continue
            if verdict == "sat":
                anysat = True
                e0 = mdl.get("e0", ents[0])
                e1 = mdl.get("e1", ents[0])
                p0, p1 = mdl.get("p0", 0), mdl.get("p1", 0)
                failed, log = asan_run(c, kern, ext, (e0, e1), (p0, p1))
                key = f"{name}:{kn}:{desc.split(' line')[0]}"
                if failed:
                    res["violations"].append({
                        "key": key, "what": f"{desc}: index {mdl['_index']} outside {mdl['_shape']} at {{{', '.join(f'{k}={v}' for k, v in mdl.items() if not k.startswith('_'))}}}; confirmed by ASan/UBSan",
                        "replay": {"kind": "bounds", "name": name, "spec": spec, "kernel": kn, "ents": [e0, e1], "perms": [p0, p1]}})
                elif failed is None:
                    res["harness"].append(f"{name}:{kn}: ASan replay build failed: {log[:200]}")
                else:
                    # in-range flat address but out-of-range in a dimension (UB the sanitizer may not see)
                    res["inconclusive"].append(f"{name}:{kn}: {desc}: solver sat {mdl['_index']} vs {mdl['_shape']}, sanitizer run clean")
            else:
                res["harness"].append(f"{name}:{kn}: {desc}: {verdict}")
        # vacuity twin: shrink one extent by one -> at least one site must become sat
        if n:
            res["twins_run"] += 1
            ext2 = dict(ext)
            tw = "A"
            ext2[tw] = 0
            st2 = eqcheck.QStats()
            out2, _ = site_queries(kern, ext2, ents, nperm, st2)
            if any(v == "sat" for _, v, _ in out2):
                res["twins_ok"] += 1
            else:
                res["harness"].append(f"{name}:{kn}: bounds twin (A extent 0) not detected")
        if itype == "cell":
            used = _free_ids(kern.body)
            for pn in ("entity_local_index", "quadrature_permutation"):
                if pn in used:
                    res["violations"].append({"key": f"{name}:{kn}:cell-derefs-{pn}", "what": f"cell kernel dereferences {pn}", "replay": None})
        if len(res["samples"]) < 2:
            res["samples"].append({"kernel": kern.name, "type": itype, "access_sites": n, "extents": ext, "entities": ents, "nperm": nperm})
    res["extra"]["access_sites"] = nsites
    res["queries"] = stats.q
    res["solver_s"] = stats.secs


def replay_bounds(p):
    name, spec = p["name"], p["spec"]
    for form, m, c, fref, itd, sid, kn, idesc, kern in iter_kernels(name, spec):
        if kn != p["kernel"]:
            continue
        ext = contract_extents(fref, itd)
        failed, log = asan_run(c, kern, ext, p["ents"], p["perms"])
        print(log)
        print("REPRODUCED" if failed else "not reproduced")
        return 1 if failed else 0
    return 0


# ---------------------------------------------------------------------------
# C03 (second sentence): needs_facet_permutations == false  =>  result independent of the
# permutation argument.  Runs on every interior-facet kernel of a corpus form.


def _perm_pairs(nperm, tier):
    if nperm <= 2:
        return [(a, b) for a in range(nperm) for b in range(nperm) if (a, b) != (0, 0)]
    pairs = [(a, 0) for a in range(1, nperm)] + [(0, b) for b in range(1, nperm)] + [(a, a) for a in range(1, nperm)]
    if tier != "quick":
        pairs += [(a, b) for a in range(1, nperm) for b in range(1, nperm) if a != b]
    return pairs


def _permflag(name, spec, res):
    tier = spec.get("tier", "quick")
    stats = eqcheck.QStats()
    for form, m, c, fref, itd, sid, kn, idesc, kern in iter_kernels(name, spec):
        if itd.integral_type != "interior_facet":
            continue
        res["kernels"] += 1
        reads = "quadrature_permutation" in _free_ids(kern.body)
        res["extra"]["flag_true" if idesc.needs_perm else "flag_false"] = res["extra"].get("flag_true" if idesc.needs_perm else "flag_false", 0) + 1
        if idesc.needs_perm:
            continue
        if not reads:
            # decided for every permutation value at once: the symbol does not occur in the kernel
            stats.add("Q-dep", "unsat(no-occurrence)")
            res["entries"] += 1
            continue
        cellname = itd.domain.ufl_cell().cellname
        nw, nc, nx, shape, nA, width, cel = kernel_layout(fref, itd)
        facet_cell = idesc.domain
        nperm = NPERM.get(facet_cell, 1)
        cfgs = entity_configs("interior_facet", cellname, tier, facet_cell)[: (2 if tier == "quick" else 6)]
        lib = None
        found = False
        for ents in cfgs:
            if found:
                break
            ctx = Ctx()
            inp = uflref.Inputs(ctx, nw, nc, nx, fref.complex_mode)
            base = ksym.run_kernel(kern, ctx, inp, nA, entities=ents, perms=(0, 0))
            pb = split_parts(base.A)
            for perms in _perm_pairs(nperm, tier):
                if found:
                    break
                other = ksym.run_kernel(kern, ctx, inp, nA, entities=ents, perms=perms)
                res["configs"] += 1
                for (lab, a), (_, b) in zip(pb, split_parts(other.A)):
                    D = b - a
                    res["entries"] += 1
                    verdict, _ = eqcheck.qident(ctx, D, stats)
                    if verdict == "unsat":
                        continue
                    if verdict != "sat":
                        res["inconclusive"].append(f"{name}:{kn}: perms {perms} entry {lab}: solver {verdict}")
                        continue
                    cs = max(coeff_scale([(lab, a)]), 1e-300)
                    env = eqcheck.witness_rel(ctx, D, a, 1e-9, 1e-12 * cs, geometry_env(cel, cellname, width, 0),
                                              lambda e: assumptions_hold(ctx, e, D.vars() | a.vars()), tries=60)
                    if env is None:
                        res["inconclusive"].append(f"{name}:{kn}: perms {perms} entry {lab}: sat, no concrete witness inside the assumptions")
                        continue
                    if lib is None:
                        lib = ksym.build_so(c, "pf")
                    w, cc, x = ksym.pack(inp, env)
                    v0 = ksym.call_c_kernel(lib, kern, nA, w, cc, x, ents, (0, 0))
                    v1 = ksym.call_c_kernel(lib, kern, nA, w, cc, x, ents, perms)
                    idx = int(lab.split(".")[0])
                    if abs(v0[idx] - v1[idx]) > 1e-9 * max(abs(v0[idx]), abs(v1[idx]), 1e-30):
                        res["violations"].append({
                            "key": f"{name}:{kn}:flag-false-but-depends",
                            "what": f"needs_facet_permutations is false but A[{lab}] = {v0[idx]!r} for permutation codes (0,0) and {v1[idx]!r} for {perms} (entities {ents})",
                            "replay": {"kind": "permflag", "name": name, "spec": spec, "kernel": kn, "ents": list(ents), "perms": list(perms), "entry": lab, "env": env}})
                        found = True
                        break
                    res["inconclusive"].append(f"{name}:{kn}: perms {perms} entry {lab}: sat, not reproduced on the build")
        if len(res["samples"]) < 2:
            res["samples"].append({"kernel": kern.name, "needs_facet_permutations": bool(idesc.needs_perm), "reads_quadrature_permutation": reads})
    res["queries"] = stats.q
    res["solver_s"] = stats.secs


def replay_permflag(p):
    name, spec = p["name"], p["spec"]
    for form, m, c, fref, itd, sid, kn, idesc, kern in iter_kernels(name, spec):
        if kn != p["kernel"]:
            continue
        nw, nc, nx, shape, nA, width, cel = kernel_layout(fref, itd)
        ctx = Ctx()
        inp = uflref.Inputs(ctx, nw, nc, nx, fref.complex_mode)
        env = {k: float(v) for k, v in p["env"].items()}
        for v in ctx.vars:
            if v.defn is None:
                env.setdefault(v.name, 0.0)
        lib = ksym.build_so(c, "pf")
        w, cc, x = ksym.pack(inp, env)
        v0 = ksym.call_c_kernel(lib, kern, nA, w, cc, x, p["ents"], (0, 0))
        v1 = ksym.call_c_kernel(lib, kern, nA, w, cc, x, p["ents"], p["perms"])
        idx = int(p["entry"].split(".")[0])
        print(f"form={name} kernel={kn} needs_facet_permutations={bool(idesc.needs_perm)} entities={p['ents']}")
        print(f"  A[{p['entry']}] with codes (0,0): {v0[idx]!r}\n  A[{p['entry']}] with codes {tuple(p['perms'])}: {v1[idx]!r}")
        bad = (not idesc.needs_perm) and abs(v0[idx] - v1[idx]) > 1e-9 * max(abs(v0[idx]), abs(v1[idx]), 1e-30)
        print("  REPRODUCED" if bad else "  not reproduced on this tree")
        return 1 if bad else 0
    print("kernel not found on this tree")
    return 0


permflag = _wrap(_permflag)
