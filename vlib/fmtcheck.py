"""C16: formatted source means exactly what the code-generation AST says.

(1) every LNodes expression tree of bounded depth over the operator set is printed by the real C and
    numba formatters, parsed back (pycparser / ast) and both the tree (documented meaning) and the
    parsed text (C / Python semantics) are translated to z3 terms over IEEE Float16 / Bool / Int;
    z3 decides  exists leaves: value1 != value2 (neither NaN).
(2) statements (ForRange, ArrayDecl, assignments, sections): parsed fields vs the LNodes (concrete).
(3) literals: per (binade, decade) segment a QF_LIA query over ALL doubles of the segment for the
    D-significant-digit decimal the formatter prints (D read from the formatter source)."""

from __future__ import annotations

import ast
import inspect
import itertools
import re
import subprocess
import time
from fractions import Fraction as F
from pathlib import Path

import z3
from pycparser import c_parser

from . import cfront, pyfront
from .poly import KsymError

F16 = z3.Float16()
RM = z3.RNE()


def L():
    import ffcx.codegeneration.lnodes as lnodes

    return lnodes


# ---------------------------------------------------------------------------
# tree enumeration


def leaves(kind):
    ln = L()
    R, I = ln.DataType.REAL, ln.DataType.INT
    if kind == "f":
        return [("a", ln.Symbol("a", R)), ("b", ln.Symbol("b", R)), ("2.5", ln.LiteralFloat(2.5)), ("-2.5", ln.LiteralFloat(-2.5)),
                ("T[i]", ln.ArrayAccess(ln.Symbol("T", R), (ln.Symbol("i", I),))), ("3", ln.LiteralInt(3)), ("7.0", ln.LiteralFloat(7.0)),
                ("2j", ln.LiteralFloat(2j)), ("1.5-2j", ln.LiteralFloat(1.5 - 2j)),
                # constants that formatters like to special-case
                ("I2", ln.LiteralInt(2)), ("1.0", ln.LiteralFloat(1.0)), ("I0", ln.LiteralInt(0)), ("0.5", ln.LiteralFloat(0.5)), ("-1.0", ln.LiteralFloat(-1.0))]
    if kind == "b":
        return [("a<b", ln.LT(ln.Symbol("a", R), ln.Symbol("b", R))), ("c>=a", ln.GE(ln.Symbol("c", R), ln.Symbol("a", R)))]
    if kind == "i":
        return [("i", ln.Symbol("i", I)), ("2", ln.LiteralInt(2)), ("j", ln.Symbol("j", I))]
    raise ValueError(kind)


# operator table: name -> (result kind, operand kinds, constructor)
def operators():
    ln = L()
    R = ln.DataType.REAL
    ops = {
        "Add": ("f", "ff", lambda x, y: ln.Add(x, y)),
        "Sub": ("f", "ff", lambda x, y: ln.Sub(x, y)),
        "Mul": ("f", "ff", lambda x, y: ln.Mul(x, y)),
        "Div": ("f", "ff", lambda x, y: ln.Div(x, y)),
        "Neg": ("f", "f", lambda x: ln.Neg(x)),
        "Sum3": ("f", "fff", lambda x, y, z: ln.Sum([x, y, z])),
        "Product3": ("f", "fff", lambda x, y, z: ln.Product([x, y, z])),
        "Conditional": ("f", "bff", lambda c, t, f: ln.Conditional(c, t, f)),
        "sqrt": ("f", "f", lambda x: ln.MathFunction("sqrt", [x])),
        "power": ("f", "ff", lambda x, y: ln.MathFunction("power", [x, y])),
        "Access": ("f", "i", lambda i: ln.ArrayAccess(ln.Symbol("T", R), (i,))),
        "LT": ("b", "ff", lambda x, y: ln.LT(x, y)),
        "LE": ("b", "ff", lambda x, y: ln.LE(x, y)),
        "GT": ("b", "ff", lambda x, y: ln.GT(x, y)),
        "GE": ("b", "ff", lambda x, y: ln.GE(x, y)),
        "EQ": ("b", "ff", lambda x, y: ln.EQ(x, y)),
        "NE": ("b", "ff", lambda x, y: ln.NE(x, y)),
        "And": ("b", "bb", lambda x, y: ln.And(x, y)),
        "Or": ("b", "bb", lambda x, y: ln.Or(x, y)),
        "Not": ("b", "b", lambda x: ln.Not(x)),
        "IAdd": ("i", "ii", lambda x, y: ln.Add(x, y)),
        "IMul": ("i", "ii", lambda x, y: ln.Mul(x, y)),
        "ISub": ("i", "ii", lambda x, y: ln.Sub(x, y)),
    }
    return ops


def gen_trees(tier):
    """(label, tree, kind): every (parent, position, child) at depth 2; at depth 3 every chain
    (grandparent, position, parent, position, child) over the arithmetic/logical core."""
    ops = operators()
    out = []

    def default(kind, salt=0):
        ls = leaves(kind)
        return ls[salt % len(ls)]

    def build(opname, slot_fill):
        """slot_fill: {position: (label, node)}; other positions get default leaves."""
        kind, argk, ctor = ops[opname]
        args, labs = [], []
        for p, k in enumerate(argk):
            if p in slot_fill:
                lab, nd = slot_fill[p]
            else:
                lab, nd = default(k, p)
            args.append(nd)
            labs.append(lab)
        return f"{opname}({', '.join(labs)})", ctor(*args), kind

    # depth 1: every operator with every leaf in every position
    for o, (kind, argk, ctor) in ops.items():
        for p, k in enumerate(argk):
            for lab, nd in leaves(k):
                out.append(build(o, {p: (lab, nd)}))
    # depth 1, binary operators: every pair of leaves (integral-valued float literals next to integer
    # literals / integer symbols: the literal's TYPE matters in C: 7 / 3 is not 7.0 / 3)
    for o, (kind, argk, ctor) in ops.items():
        if len(argk) == 2 and argk[0] == argk[1]:
            for l0 in leaves(argk[0]):
                for l1 in leaves(argk[1]):
                    out.append(build(o, {0: l0, 1: l1}))
    # depth 2 with integral-valued float literals in every real slot of the child and integer literals beside it
    fl, il = leaves("f")[6], leaves("f")[5]
    for o, (kind, argk, ctor) in ops.items():
        for p, k in enumerate(argk):
            for c, (ckind, cargk, cctor) in ops.items():
                if ckind != k or "f" not in cargk:
                    continue
                clab, cnode, _ = build(c, {q: fl for q, kk in enumerate(cargk) if kk == "f"})
                fill = {q: il for q, kk in enumerate(argk) if kk == "f" and q != p}
                fill[p] = (clab, cnode)
                out.append(build(o, fill))
    # depth 2, arithmetic parents: every real-valued child operator with every leaf in every child position
    # (a child that is special-cased for particular constants, e.g. power(x, 2), in every parent position)
    arith_parents = ["Add", "Sub", "Mul", "Div", "Neg", "Sum3", "Product3", "power", "sqrt", "Conditional", "LT"]
    for o in arith_parents:
        kind, argk, ctor = ops[o]
        for p, k in enumerate(argk):
            if k != "f":
                continue
            for c, (ckind, cargk, cctor) in ops.items():
                if ckind != "f":
                    continue
                for cp, ck in enumerate(cargk):
                    for lf in leaves(ck):
                        clab, cnode, _ = build(c, {cp: lf})
                        out.append(build(o, {p: (clab, cnode)}))
    # depth 2: every (parent, position, child operator)
    for o, (kind, argk, ctor) in ops.items():
        for p, k in enumerate(argk):
            for c, (ckind, cargk, cctor) in ops.items():
                if ckind != k:
                    continue
                clab, cnode, _ = build(c, {})
                out.append(build(o, {p: (clab, cnode)}))
                # with a negative literal first operand in the child (sign/paren interplay)
                if cargk[0] == "f":
                    clab2, cnode2, _ = build(c, {0: leaves("f")[3]})
                    out.append(build(o, {p: (clab2, cnode2)}))
    # depth 3
    core = ["Add", "Sub", "Mul", "Div", "Neg", "Sum3", "Product3", "Conditional", "LT", "EQ", "And", "Or", "Not"] if tier == "thorough" else ["Sub", "Div", "Neg", "Mul", "Conditional", "LT", "Or", "Not", "Sum3"]
    for g in core:
        gk, gargk, _ = ops[g]
        for gp, k1 in enumerate(gargk):
            for o in core:
                kind, argk, _ = ops[o]
                if kind != k1:
                    continue
                for p, k2 in enumerate(argk):
                    for c in core:
                        ckind = ops[c][0]
                        if ckind != k2:
                            continue
                        clab, cnode, _ = build(c, {})
                        mlab, mnode, _ = build(o, {p: (clab, cnode)})
                        out.append(build(g, {gp: (mlab, mnode)}))
    out += random_trees(tier)
    return out


def random_trees(tier, seed=None):
    """Random well-typed trees of depth 4-5 (deterministic in VERIF_SEED)."""
    import os
    import random

    seed = int(os.environ.get("VERIF_SEED", "0") or 0) if seed is None else seed
    r = random.Random(seed * 7 + 3)
    ops = operators()
    by_kind = {}
    for nme, (k, argk, ctor) in ops.items():
        by_kind.setdefault(k, []).append(nme)

    def mk(kind, depth):
        if depth == 0 or r.random() < 0.15:
            lab, nd = r.choice(leaves(kind))
            return lab, nd
        o = r.choice(by_kind[kind])
        k, argk, ctor = ops[o]
        subs = [mk(ak, depth - 1) for ak in argk]
        return f"{o}({', '.join(s_[0] for s_ in subs)})", ctor(*[s_[1] for s_ in subs])

    out = []
    for _ in range(400 if tier == "quick" else 4000):
        kind = r.choice(["f", "f", "f", "b"])
        lab, nd = mk(kind, r.choice([3, 4, 5]))
        out.append((lab, nd, kind))
    return out


# ---------------------------------------------------------------------------
# z3 translation


class ZEnv:
    def __init__(self):
        self.f = {}
        self.i = {}
        self.T = z3.Function("T", z3.IntSort(), F16)
        self.ufs = {}
        self.lang = "C"
        self.assume = []

    def fvar(self, n):
        if n not in self.f:
            self.f[n] = z3.FP(n, F16)
        return self.f[n]

    def ivar(self, n):
        if n not in self.i:
            self.i[n] = z3.Int(n)
        return self.i[n]

    def uf(self, name, arity):
        k = (name, arity)
        if k not in self.ufs:
            self.ufs[k] = z3.Function("uf_" + name, *([F16] * arity), F16)
        return self.ufs[k]


INT_NAMES = {"i", "j"}


def fpval(x):
    return z3.FPVal(float(x), F16)


def as_fp(v):
    if isinstance(v, tuple):
        kind, z = v
        if kind == "f":
            return z
        if kind == "i":
            return z3.fpToFP(RM, z3.ToReal(z), F16)
        if kind == "b":
            return z3.If(z, fpval(1.0), fpval(0.0))
    raise KsymError("bad value")


def as_bool(v):
    kind, z = v
    if kind == "b":
        return z
    if kind == "f":
        return z3.Not(z3.fpIsZero(z))
    return z != 0


def arith(op, a, b, env=None):
    if a[0] == "i" and b[0] == "i" and op in "+-*":
        return ("i", {"+": a[1] + b[1], "-": a[1] - b[1], "*": a[1] * b[1]}[op])
    if a[0] == "i" and b[0] == "i" and op == "/" and (env is None or env.lang == "C"):
        # C: both operands of integer type -> integer division truncating toward zero (6.5.5); b == 0 is undefined
        x, y = a[1], b[1]
        if env is not None:
            env.assume.append(y != 0)
        ax, ay = z3.If(x >= 0, x, -x), z3.If(y >= 0, y, -y)
        q = ax / ay
        return ("i", z3.If((x < 0) != (y < 0), -q, q))
    x, y = as_fp(a), as_fp(b)
    return ("f", {"+": z3.fpAdd, "-": z3.fpSub, "*": z3.fpMul, "/": z3.fpDiv}[op](RM, x, y))


def compare(op, a, b):
    if a[0] == "i" and b[0] == "i":
        x, y = a[1], b[1]
        return ("b", {"<": x < y, "<=": x <= y, ">": x > y, ">=": x >= y, "==": x == y, "!=": x != y}[op])
    x, y = as_fp(a), as_fp(b)
    return ("b", {"<": z3.fpLT(x, y), "<=": z3.fpLEQ(x, y), ">": z3.fpGT(x, y), ">=": z3.fpGEQ(x, y), "==": z3.fpEQ(x, y), "!=": z3.Not(z3.fpEQ(x, y))}[op])


def fun(env, name, args):
    xs = [as_fp(a) for a in args]
    if name in ("sqrt", "np.sqrt", "sqrtf", "csqrt"):
        return ("f", z3.fpSqrt(RM, xs[0]))
    if name in ("fabs", "np.abs", "fabsf"):
        return ("f", z3.fpAbs(xs[0]))
    canon = {"pow": "power", "np.power": "power", "powf": "power"}.get(name, name)
    return ("f", env.uf(canon, len(xs))(*xs))


def z3_of_lnodes(env: ZEnv, n):
    ln = L()
    if isinstance(n, ln.LiteralFloat):
        if isinstance(n.value, complex):
            # a complex literal is an opaque atom: what is decided is that the text keeps it one (parenthesisation / precedence).
            # Python has no complex literal with a real part: `(1.5-2j)` IS the subtraction 1.5 - 2j, so that is its meaning there.
            re_, im_ = float(n.value.real), float(n.value.imag)
            if env.lang == "py":
                zi = env.fvar(f"Z_0.0_{abs(im_)}")
                if re_ == 0.0 and im_ > 0 and str(re_) == "0.0":
                    return ("f", zi)
                return ("f", (z3.fpAdd if im_ >= 0 else z3.fpSub)(RM, fpval(re_), zi))
            return ("f", env.fvar(f"Z_{re_}_{im_}"))
        return ("f", fpval(n.value))
    if isinstance(n, ln.LiteralInt):
        return ("i", z3.IntVal(int(n.value)))
    if isinstance(n, ln.Symbol):
        return ("i", env.ivar(n.name)) if n.dtype == ln.DataType.INT else ("f", env.fvar(n.name))
    if isinstance(n, ln.ArrayAccess):
        idx = z3_of_lnodes(env, n.indices[0])
        return ("f", env.T(idx[1]))
    if isinstance(n, ln.Neg):
        a = z3_of_lnodes(env, n.arg)
        return ("i", -a[1]) if a[0] == "i" else ("f", z3.fpNeg(as_fp(a)))
    if isinstance(n, ln.Not):
        return ("b", z3.Not(as_bool(z3_of_lnodes(env, n.arg))))
    if isinstance(n, (ln.Add, ln.Sub, ln.Mul, ln.Div)):
        return arith(n.op, z3_of_lnodes(env, n.lhs), z3_of_lnodes(env, n.rhs), env)
    if isinstance(n, (ln.LT, ln.LE, ln.GT, ln.GE, ln.EQ, ln.NE)):
        return compare(n.op, z3_of_lnodes(env, n.lhs), z3_of_lnodes(env, n.rhs))
    if isinstance(n, ln.And):
        return ("b", z3.And(as_bool(z3_of_lnodes(env, n.lhs)), as_bool(z3_of_lnodes(env, n.rhs))))
    if isinstance(n, ln.Or):
        return ("b", z3.Or(as_bool(z3_of_lnodes(env, n.lhs)), as_bool(z3_of_lnodes(env, n.rhs))))
    if isinstance(n, (ln.Sum, ln.Product)):
        # documented meaning: operands combined left to right
        acc = z3_of_lnodes(env, n.args[0])
        for a in n.args[1:]:
            acc = arith(n.op, acc, z3_of_lnodes(env, a), env)
        return acc
    if isinstance(n, ln.Conditional):
        c = as_bool(z3_of_lnodes(env, n.condition))
        t, f = z3_of_lnodes(env, n.true), z3_of_lnodes(env, n.false)
        if t[0] == "i" and f[0] == "i":
            return ("i", z3.If(c, t[1], f[1]))
        return ("f", z3.If(c, as_fp(t), as_fp(f)))
    if isinstance(n, ln.MathFunction):
        return fun(env, {"power": "power"}.get(n.function, n.function), [z3_of_lnodes(env, a) for a in n.args])
    raise KsymError(f"lnodes {type(n).__name__}")


def _num(e):
    """numeric value of a (possibly negated) literal node, else None"""
    if e[0] == "num" and not isinstance(e[1], bool):
        return e[1]
    if e[0] == "un" and e[1] == "-":
        v = _num(e[2])
        return None if v is None else -v
    return None


def _complex_atom(e):
    """(re, im) if the subtree is the spelling of ONE complex literal: C `re+I*im`, Python `re+imj` / `re-imj`."""
    if e[0] == "bin" and e[1] in "+-":
        re_, rhs = _num(e[2]), e[3]
        if re_ is None or isinstance(re_, complex):
            return None
        sgn = 1.0 if e[1] == "+" else -1.0
        if rhs[0] == "bin" and rhs[1] == "*" and rhs[2] == ("id", "I"):
            im = _num(rhs[3])
            if im is not None and not isinstance(im, complex):
                return float(re_), sgn * float(im)
    return None


def z3_of_ir(env: ZEnv, e):
    k = e[0]
    ca = _complex_atom(e)
    if ca is not None:
        return ("f", env.fvar(f"Z_{ca[0] + 0.0}_{ca[1] + 0.0}"))
    if k == "num":
        v = e[1]
        if isinstance(v, bool):
            return ("b", z3.BoolVal(v))
        if isinstance(v, int):
            return ("i", z3.IntVal(v))
        if isinstance(v, complex):
            return ("f", env.fvar(f"Z_{float(v.real)}_{float(v.imag)}"))
        return ("f", fpval(v))
    if k == "id":
        return ("i", env.ivar(e[1])) if e[1] in INT_NAMES else ("f", env.fvar(e[1]))
    if k == "idx":
        i = z3_of_ir(env, e[2][0])
        return ("f", env.T(i[1]))
    if k == "un":
        a = z3_of_ir(env, e[2])
        if e[1] == "-":
            return ("i", -a[1]) if a[0] == "i" else ("f", z3.fpNeg(as_fp(a)))
        if e[1] == "!":
            return ("b", z3.Not(as_bool(a)))
        if e[1] == "+":
            return a
    if k == "bin":
        op = e[1]
        a, b = z3_of_ir(env, e[2]), z3_of_ir(env, e[3])
        if op in "+-*/":
            return arith(op, a, b, env)
        if op in ("<", "<=", ">", ">=", "==", "!="):
            return compare(op, a, b)
        if op == "&&":
            return ("b", z3.And(as_bool(a), as_bool(b)))
        if op == "||":
            return ("b", z3.Or(as_bool(a), as_bool(b)))
    if k == "cond":
        t, f = z3_of_ir(env, e[2]), z3_of_ir(env, e[3])
        if t[0] == "i" and f[0] == "i":  # C: both branches of integer type -> the conditional has integer type
            return ("i", z3.If(as_bool(z3_of_ir(env, e[1])), t[1], f[1]))
        return ("f", z3.If(as_bool(z3_of_ir(env, e[1])), as_fp(t), as_fp(f)))
    if k == "call":
        return fun(env, e[1], [z3_of_ir(env, a) for a in e[2]])
    raise KsymError(f"ir {k}")


# ---------------------------------------------------------------------------
# parse back


_CP = None


def parse_c_expr(text, kind):
    global _CP
    if _CP is None:
        _CP = c_parser.CParser()
    ty = {"f": "double", "b": "_Bool", "i": "int"}[kind]
    src = f"void k(double a, double b, double c, double* T, int i, int j, double I) {{ {ty} r = {text}; }}"
    tree = _CP.parse(src)
    decl = tree.ext[0].body.block_items[0]
    return cfront._Conv().expr(decl.init)


def parse_py_expr(text):
    node = ast.parse(text.strip(), mode="eval").body
    m = pyfront.PyModule()
    m.imports = {"np", "math", "numba"}
    return pyfront._Conv(m).expr(node)


def decide_equal(v1, v2, assume=()):
    """z3: exists leaves with different non-NaN values?  returns (verdict, model text)."""
    s = z3.Solver()
    s.set("timeout", 8000)
    for c in assume:
        s.add(c)
    if v1[0] == "b" or v2[0] == "b":
        s.add(as_bool(v1) != as_bool(v2))
    elif v1[0] == "i" and v2[0] == "i":
        s.add(v1[1] != v2[1])
    else:
        x, y = as_fp(v1), as_fp(v2)
        if x.eq(y):
            return "unsat(identical-term)", None
        xs, ys = z3.simplify(x), z3.simplify(y)  # constant folding (e.g. -(2.5) vs the literal -2.5)
        if xs.eq(ys):
            return "unsat(identical-term)", None
        s.add(z3.Not(z3.fpIsNaN(x)), z3.Not(z3.fpIsNaN(y)), z3.Not(z3.fpEQ(x, y)))
    if (v1[0] == "b" or v2[0] == "b") and as_bool(v1).eq(as_bool(v2)):
        return "unsat(identical-term)", None
    if v1[0] == "i" and v2[0] == "i" and v1[1].eq(v2[1]):
        return "unsat(identical-term)", None
    r = str(s.check())
    mdl = None
    if r == "sat":
        m = s.model()
        mdl = ", ".join(f"{d.name()}={m[d]}" for d in m.decls() if d.arity() == 0)
    return r, mdl


def gcc_syntax_ok(expr_text, kind):
    ty = {"f": "double", "b": "_Bool", "i": "int"}[kind]
    src = f"#include <math.h>\n#include <stdbool.h>\nvoid k(double a, double b, double c, double* T, int i, int j, double I) {{ {ty} r = {expr_text}; (void)r; }}\n"
    d = Path("/verif/.work/fmt")
    d.mkdir(parents=True, exist_ok=True)
    f = d / "syn.c"
    f.write_text(src)
    r = subprocess.run(["gcc", "-std=c17", "-fsyntax-only", str(f)], capture_output=True, text=True)
    return r.returncode == 0, r.stderr[:300]


def check_trees(chk, tier):
    from ffcx.codegeneration.C.formatter import Formatter as CF
    from ffcx.codegeneration.numba.formatter import Formatter as NF

    cf, nf = CF("float64"), NF("float64")
    trees = gen_trees(tier)
    seen_v = set()
    n = 0
    t0 = time.time()
    for label, tree, kind in trees:
        n += 1
        for lang, fmt, parse in (("C", cf, lambda t: parse_c_expr(t, kind)), ("numba", nf, parse_py_expr)):
            env = ZEnv()
            env.lang = "C" if lang == "C" else "py"
            ref = z3_of_lnodes(env, tree)
            try:
                text = fmt(tree)
            except Exception as e:
                chk.inconc(f"{lang} formatter raised on {label}: {type(e).__name__}")
                continue
            key = None
            try:
                ir = parse(text)
                got = z3_of_ir(env, ir)
            except (KsymError, SyntaxError, Exception) as e:
                # text does not parse back to an expression of the grammar the executor accepts
                ok, err = (gcc_syntax_ok(text, kind) if lang == "C" else (_py_ok(text), ""))
                chk.q("parse-back", "rejected" if not ok else "front-end-gap")
                if not ok:
                    mt = minimal_unparsable(tree, fmt, lang)
                    key = f"fmt:{lang}:unparsable:{type(mt).__name__}({', '.join(type(c).__name__ + (':negative' if getattr(c, 'value', 0) < 0 else '') for c in _children(mt))})"
                    if key not in seen_v:
                        seen_v.add(key)
                        chk.violation(key, f"{lang} text {text!r} of tree {label} is not valid {lang}: {err.strip()[:160]}", _replay_src(label, lang, text, kind))
                else:
                    chk.inconc(f"{lang} text {text!r} of {label}: front-end cannot parse ({e})")
                continue
            r, mdl = decide_equal(ref, got, env.assume)
            chk.q("Q-fp16", r)
            if r == "sat":
                key = f"fmt:{lang}:meaning:{_shape(label)}"
                if key not in seen_v:
                    seen_v.add(key)
                    conf = confirm_c_meaning(tree, text, kind) if lang == "C" else confirm_py_meaning(tree, text)
                    if conf:
                        chk.violation(key, f"{lang} text {text!r} does not mean the tree {label}: z3 witness {mdl}; replay: {conf}", _replay_src(label, lang, text, kind))
                    else:
                        chk.inconc(f"{lang} text {text!r} of {label}: z3 (Float16) says the meanings differ at {mdl}; not reproduced in double precision on the real toolchain")
            elif not r.startswith("unsat"):
                chk.inconc(f"{lang} {label}: solver {r}")
        chk.cases.append(f"tree:{label}")
    chk.solver_s += time.time() - t0
    chk.extra["expression_trees"] = n
    chk.sample({"tree": trees[len(trees) // 2][0], "C": cf(trees[len(trees) // 2][1]), "numba": nf(trees[len(trees) // 2][1])})
    # vacuity twin: a formatter that drops parentheses must be caught
    chk.twins_run += 1
    ln = L()
    t = ln.Sub(ln.Symbol("a", ln.DataType.REAL), ln.Sub(ln.Symbol("b", ln.DataType.REAL), ln.Symbol("c", ln.DataType.REAL)))
    env = ZEnv()
    r, _ = decide_equal(z3_of_lnodes(env, t), z3_of_ir(env, parse_c_expr("a - b - c", "f")))
    if r == "sat":
        chk.twins_ok += 1
    else:
        chk.harness_error("formatter twin (dropped parentheses) not detected")


def eval_lnodes(n, val):
    """Concrete (double precision) meaning of an LNodes expression; val: dict a,b,c,i,j,T."""
    import math

    ln = L()
    ev = lambda x: eval_lnodes(x, val)
    if isinstance(n, ln.LiteralFloat):
        if isinstance(n.value, complex):
            return n.value.real + val["I"] * n.value.imag
        return float(n.value)
    if isinstance(n, ln.LiteralInt):
        return int(n.value)
    if isinstance(n, ln.Symbol):
        return val[n.name]
    if isinstance(n, ln.ArrayAccess):
        return val["T"][ev(n.indices[0]) % len(val["T"])]
    if isinstance(n, ln.Neg):
        return -ev(n.arg)
    if isinstance(n, ln.Not):
        return not ev(n.arg)
    if isinstance(n, (ln.Add, ln.Sub, ln.Mul, ln.Div)):
        x, y = ev(n.lhs), ev(n.rhs)
        if n.op == "/":
            if isinstance(x, int) and isinstance(y, int) and not isinstance(x, bool) and not val.get("_py"):
                return int(x / y) if y else float("nan")
            return x / y if y else float("nan")
        return {"+": x + y, "-": x - y, "*": x * y}[n.op]
    if isinstance(n, (ln.LT, ln.LE, ln.GT, ln.GE, ln.EQ, ln.NE)):
        x, y = ev(n.lhs), ev(n.rhs)
        return {"<": x < y, "<=": x <= y, ">": x > y, ">=": x >= y, "==": x == y, "!=": x != y}[n.op]
    if isinstance(n, ln.And):
        return bool(ev(n.lhs)) and bool(ev(n.rhs))
    if isinstance(n, ln.Or):
        return bool(ev(n.lhs)) or bool(ev(n.rhs))
    if isinstance(n, (ln.Sum, ln.Product)):
        acc = ev(n.args[0])
        for a in n.args[1:]:
            acc = acc + ev(a) if n.op == "+" else acc * ev(a)
        return acc
    if isinstance(n, ln.Conditional):
        return ev(n.true) if ev(n.condition) else ev(n.false)
    if isinstance(n, ln.MathFunction):
        xs = [float(ev(a)) for a in n.args]
        try:
            if n.function == "sqrt":
                return math.sqrt(xs[0]) if xs[0] >= 0 else float("nan")
            if n.function == "power":
                r = math.pow(xs[0], xs[1])
                return r
        except (ValueError, OverflowError, ZeroDivisionError):
            return float("nan")
    raise KsymError(f"eval {type(n).__name__}")


def confirm_c_meaning(tree, text, kind, tries=40):
    """Replay of a z3 `sat` on the real toolchain: the emitted C text is compiled with gcc and
    evaluated in double precision at concrete leaf values; the LNodes tree is evaluated by its
    documented meaning.  Returns a description of a disagreeing point, or None."""
    import ctypes
    import hashlib
    import random

    d = Path("/verif/.work/fmt")
    d.mkdir(parents=True, exist_ok=True)
    h = hashlib.sha1(text.encode()).hexdigest()[:12]
    src = ("#include <math.h>\n#include <stdbool.h>\n"
           f"double k(double a, double b, double c, double* T, int i, int j, double I) {{ return (double)({text}); }}\n")
    cf, so = d / f"m{h}.c", d / f"m{h}.so"
    cf.write_text(src)
    r = subprocess.run(["gcc", "-std=c17", "-O0", "-fPIC", "-shared", str(cf), "-o", str(so), "-lm"], capture_output=True, text=True)
    if r.returncode:
        return None
    lib = ctypes.CDLL(str(so))
    lib.k.restype = ctypes.c_double
    lib.k.argtypes = [ctypes.c_double] * 3 + [ctypes.POINTER(ctypes.c_double), ctypes.c_int, ctypes.c_int, ctypes.c_double]
    rng = random.Random(7)
    out = None
    for t in range(tries):
        val = {"a": rng.choice([0.3, 1.7, -2.2, 5.1, 0.6]) + t * 0.013, "b": rng.choice([1.1, -0.7, 3.3, 2.6]) - t * 0.007, "c": rng.choice([0.9, -1.3, 4.2]) + t * 0.003,
               "i": rng.randrange(0, 4), "j": rng.randrange(0, 4), "T": [1.25, -0.5, 3.75, 0.625, 2.5, -1.75, 0.2, 4.4, 1.9, -3.1, 0.7, 2.2, 5.5, -0.9, 1.3, 0.45]}
        val["I"] = 0.7 + 0.01 * t  # the imaginary unit stands as a free real symbol (structure is what is replayed)
        try:
            want = eval_lnodes(tree, val)
        except (ZeroDivisionError, OverflowError):
            continue
        want = float(want)
        arr = (ctypes.c_double * len(val["T"]))(*val["T"])
        got = lib.k(val["a"], val["b"], val["c"], arr, val["i"], val["j"], val["I"])
        if want != want or got != got or abs(want) == float("inf") or abs(got) == float("inf"):
            continue
        if abs(got - want) > 1e-9 * max(abs(got), abs(want), 1e-300):
            out = f"a={val['a']}, b={val['b']}, c={val['c']}, i={val['i']}, j={val['j']}: gcc-built text gives {got!r}, the tree means {want!r}"
            break
    for f in (cf, so):
        try:
            f.unlink()
        except OSError:
            pass
    return out


def confirm_py_meaning(tree, text, tries=40):
    import math
    import random

    import numpy as np

    rng = random.Random(7)
    for t in range(tries):
        val = {"a": rng.choice([0.3, 1.7, -2.2, 5.1, 0.6]) + t * 0.013, "b": rng.choice([1.1, -0.7, 3.3, 2.6]) - t * 0.007, "c": rng.choice([0.9, -1.3, 4.2]) + t * 0.003,
               "i": rng.randrange(0, 4), "j": rng.randrange(0, 4), "T": [1.25, -0.5, 3.75, 0.625, 2.5, -1.75, 0.2, 4.4, 1.9, -3.1, 0.7, 2.2, 5.5, -0.9, 1.3, 0.45]}
        try:
            want = complex(eval_lnodes(tree, dict(val, _py=True, I=1j)))
            with np.errstate(all="ignore"):
                got = complex(eval(text, {"np": np, "math": math, **val}))
        except Exception:
            continue
        if want != want or got != got or abs(want) == float("inf") or abs(got) == float("inf"):
            continue
        if abs(got - want) > 1e-9 * max(abs(got), abs(want), 1e-300):
            return f"a={val['a']}, b={val['b']}, c={val['c']}, i={val['i']}, j={val['j']}: Python evaluation of the text gives {got!r}, the tree means {want!r}"
    return None


def _children(n):
    ln = L()
    if isinstance(n, (ln.Neg, ln.Not)):
        return [n.arg]
    if isinstance(n, ln.BinOp):
        return [n.lhs, n.rhs]
    if isinstance(n, ln.NaryOp) or isinstance(n, ln.MathFunction):
        return list(n.args)
    if isinstance(n, ln.Conditional):
        return [n.condition, n.true, n.false]
    if isinstance(n, ln.ArrayAccess):
        return list(n.indices)
    return []


def minimal_unparsable(tree, fmt, lang):
    """Smallest subtree whose own text is rejected (groups one defect under one key)."""
    for c in _children(tree):
        try:
            t = fmt(c)
            ok = gcc_syntax_ok(t, "f")[0] if lang == "C" else _py_ok(t)
        except Exception:
            ok = True
        if not ok:
            return minimal_unparsable(c, fmt, lang)
    return tree


def _py_ok(text):
    try:
        ast.parse(text.strip(), mode="eval")
        return True
    except SyntaxError:
        return False


def _shape(label):
    return re.sub(r"[^A-Za-z0-9(),<>=!\-\.\[\] ]", "", label)[:80]


def _replay_src(label, lang, text, kind):
    return ("#!/verif/.venv/bin/python\nimport sys\nsys.path[:0]=['/verif','/repo']\nfrom vlib import fmtcheck\n"
            f"sys.exit(fmtcheck.replay_tree({label!r}, {lang!r}))\n")


def replay_tree(label, lang):
    from ffcx.codegeneration.C.formatter import Formatter as CF
    from ffcx.codegeneration.numba.formatter import Formatter as NF

    for tier in ("quick", "thorough"):
        for lab, tree, kind in gen_trees(tier):
            if lab == label:
                text = (CF("float64") if lang == "C" else NF("float64"))(tree)
                print(f"tree {label} -> {lang} text: {text!r}")
                if lang == "C":
                    ok, err = gcc_syntax_ok(text, kind)
                    print("gcc -fsyntax-only:", "ok" if ok else err)
                    if not ok:
                        print("REPRODUCED")
                        return 1
                env = ZEnv()
                try:
                    got = z3_of_ir(env, parse_c_expr(text, kind) if lang == "C" else parse_py_expr(text))
                except Exception as e:
                    print("does not parse back:", e, "\nREPRODUCED")
                    return 1
                r, mdl = decide_equal(z3_of_lnodes(env, tree), got, env.assume)
                print("z3:", r, mdl)
                conf = (confirm_c_meaning(tree, text, kind) if lang == "C" else confirm_py_meaning(tree, text)) if r == "sat" else None
                print("real toolchain:", conf)
                print("REPRODUCED" if conf else "not reproduced")
                return 1 if conf else 0
    print("tree not found")
    return 0


# ---------------------------------------------------------------------------
# statements


def check_statements(chk):
    from ffcx.codegeneration.C.formatter import Formatter as CF
    from ffcx.codegeneration.numba.formatter import Formatter as NF
    import numpy as np

    ln = L()
    R, I = ln.DataType.REAL, ln.DataType.INT
    cf, nf = CF("float64"), NF("float64")
    i, j = ln.Symbol("i", I), ln.Symbol("j", I)
    A, B = ln.Symbol("A", R), ln.Symbol("B", R)
    nfacts = 0
    for (b0, e0, b1, e1) in [(0, 3, 0, 4), (1, 5, 2, 2), (0, 1, 0, 7)]:
        body = [ln.AssignAdd(A[ln.MultiIndex([i, j], [e0, e1])], B[i] * B[j]), ln.Assign(B[i], ln.LiteralFloat(0.5))]
        loop = ln.ForRange(i, b0, e0, [ln.ForRange(j, b1, e1, body)])
        tabs = ln.ArrayDecl(ln.Symbol("W", R), sizes=(2, 3), values=np.array([[0.5, -1.25, 3.0], [1e-3, 2.0, -7.5]]), const=True)
        tmp = ln.ArrayDecl(ln.Symbol("tmp", R), sizes=(4,), values=np.zeros(4))
        sec = ln.Section("S", [loop], [ln.VariableDecl(ln.Symbol("acc", R), ln.LiteralFloat(0.0))], [B], [A])
        code = ln.StatementList([tabs, tmp, sec])
        ctext = "void k(double* A, double* B) {\n" + cf(code) + "}\n"
        m = cfront.parse_c(ctext)
        k = m.kernels["k"]
        ptext = "def tabulate_tensor_k(A, B):\n" + "".join("    " + l + "\n" for l in nf(code).split("\n"))
        mp = pyfront.parse_numba(ptext)
        kp = mp.kernels["tabulate_tensor_k"]
        for lang, body_ir in (("C", k.body), ("numba", kp.body)):
            facts = _stmt_facts(body_ir)
            want = {"decl W": ((2, 3), [0.5, -1.25, 3.0, 1e-3, 2.0, -7.5]), "decl tmp": ((4,), None), "loops": [("i", b0, e0), ("j", b1, e1)],
                    "stores": ["A", "B"], "A index": ("bin", "+", ("bin", "*", ("num", e1), ("id", "i")), ("id", "j"))}
            nfacts += 5
            if facts["decl W"][0] != want["decl W"][0] or [float(x) for x in facts["decl W"][1]] != want["decl W"][1]:
                chk.violation(f"stmt:{lang}:arraydecl", f"{lang}: ArrayDecl W(2,3) parsed back as {facts['decl W']}", None)
            if facts["loops"] != want["loops"]:
                chk.violation(f"stmt:{lang}:forrange", f"{lang}: loops {want['loops']} parsed back as {facts['loops']}", None)
            if facts["stores"] != want["stores"]:
                chk.violation(f"stmt:{lang}:stores", f"{lang}: assignment targets {want['stores']} parsed back as {facts['stores']}", None)
            # A subscript must evaluate to e1*i + j for all i, j (z3 LIA)
            zi, zj = z3.Int("i"), z3.Int("j")
            env = ZEnv()
            env.i = {"i": zi, "j": zj}
            got = z3_of_ir(env, facts["A index"])
            s = z3.Solver()
            s.add(got[1] != e1 * zi + zj)
            r = str(s.check())
            chk.q("Q-lia", r)
            if r != "unsat":
                chk.violation(f"stmt:{lang}:multiindex", f"{lang}: A subscript for MultiIndex([i,j],[{e0},{e1}]) is not {e1}*i+j", None)
    # table initialisers must read back entry by entry (nearly uniform, tiny, large-integer, one-entry N-d, uniform tables)
    tables = [
        ("nearly_uniform", R, np.array([0.25, 0.250001, 0.249999])),
        ("tiny", R, np.array([1e-9, 3e-9, 8e-9])),
        ("uniform", R, np.array([[1.0 / 6, 1.0 / 6], [1.0 / 6, 1.0 / 6]])),
        ("one_entry_4d", R, np.array([[[[2.0 / 3]]]])),
        ("near_one", R, np.array([1.0, 1.0 + 2.0 ** -30, 1.0 - 2.0 ** -31, 1.0])),
        ("big_ints", I, np.array([1000000, 1000001, 1000003], dtype=np.int32)),
        ("mixed_sign", R, np.array([[1e-7, -1e-7, 0.0], [1e-7, 1e-7 + 1e-15, -0.0]])),
    ]
    for tname, dt, vals in tables:
        decl = ln.ArrayDecl(ln.Symbol("W", dt), sizes=vals.shape, values=vals, const=True)
        code = ln.StatementList([decl])
        texts = {"C": "void k(double* A, double* B) {\n" + cf(code) + "}\n",
                 "numba": "def tabulate_tensor_k(A, B):\n" + "".join("    " + l + "\n" for l in nf(code).split("\n"))}
        for lang in ("C", "numba"):
            nfacts += 1
            try:
                body_ir = (cfront.parse_c(texts[lang]).kernels["k"] if lang == "C" else pyfront.parse_numba(texts[lang]).kernels["tabulate_tensor_k"]).body
                shape, flatv = _stmt_facts(body_ir)["decl W"]
            except Exception as e:
                chk.inconc(f"{lang} table {tname}: front-end: {type(e).__name__}: {e}")
                continue
            want = [float(x) for x in vals.flatten()]
            got = [float(x) for x in (flatv or [])]
            if len(got) == 1 and len(want) > 1:
                got = got * len(want)  # a fill value stands for every entry
            ok = tuple(shape) == tuple(vals.shape) and len(got) == len(want) and all(
                (a == b) or abs(a - b) <= 2.3e-16 * abs(b) for a, b in zip(got, want))
            if not ok:
                bad = next(((a, b) for a, b in zip(got, want) if not ((a == b) or abs(a - b) <= 2.3e-16 * abs(b))), None)
                chk.violation(f"stmt:{lang}:table:{tname}", f"{lang}: ArrayDecl {tname} {want[:4]} reads back as shape {tuple(shape)} values {got[:4]} (first differing entry {bad}): more than one unit in the last place",
                              "#!/verif/.venv/bin/python\nimport sys\nsys.path[:0]=['/verif','/repo']\nfrom vlib import fmtcheck\nfrom vlib.common import Check\n"
                              "class P:\n    n=0\n    extra={}\n    def q(self,*a): pass\n    def inconc(self,*a): pass\n    def violation(self,k,w,s=None):\n        self.n+=1; print(k,'::',w)\n"
                              "p=P(); fmtcheck.check_statements(p); print('REPRODUCED' if p.n else 'not reproduced'); sys.exit(1 if p.n else 0)\n")
    chk.extra["statement_facts"] = nfacts


def _stmt_facts(body):
    facts = {"loops": [], "stores": []}

    def val(e):
        if e[0] == "num":
            return e[1]
        if e[0] == "un" and e[1] == "-":
            return -val(e[2])
        raise KsymError("non-literal")

    def flat(init):
        if init[0] == "init":
            out = []
            for x in init[1]:
                out += flat(x)
            return out
        if init[0] == "fill":
            return [val(init[1])]
        return [val(init)]

    def walk(stmts):
        for st in stmts:
            if st[0] == "decl" and st[3] is not None:
                facts[f"decl {st[1]}"] = (tuple(st[3]), flat(st[4]) if st[1] == "W" and st[4] is not None else None)
            elif st[0] == "for":
                facts["loops"].append((st[1], val(st[2]), val(st[3])))
                walk(st[4])
            elif st[0] == "block":
                walk(st[1])
            elif st[0] == "assign" and st[1][0] == "idx":
                facts["stores"].append(st[1][1])
                if st[1][1] == "A":
                    facts["A index"] = st[1][2][0]

    walk(body)
    return facts


# ---------------------------------------------------------------------------
# literals


def formatter_digits():
    """Significant digits the C formatter prints for floats, read from its source."""
    from ffcx.codegeneration.C.formatter import Formatter as CF

    src = inspect.getsource(CF._format_number)
    specs = re.findall(r":\.(\d+)([a-zA-Z]?)\}", src)
    ds = {int(d) for d, t in specs if t in ("", "g", "G")}
    if len(ds) == 1:
        return ds.pop()
    return None


def seg_query(e, d, digits, stats_q):
    """Is there a double x in binade e and decade d whose `digits`-significant-digit decimal
    reads back 2 or more ulp away?  (QF_LIA over all 2^52 mantissas of the segment)"""
    lo = max(F(2) ** e, F(10) ** d)
    hi = min(F(2) ** (e + 1), F(10) ** (d + 1))
    if lo >= hi:
        return None
    ulp = F(2) ** (e - 52)
    q = F(10) ** (d - (digits - 1))
    n, m, n2 = z3.Ints("n m n2")
    s = z3.Solver()
    s.set("timeout", 20000)

    def R(fr):
        return z3.RealVal(str(fr.numerator)) / z3.RealVal(str(fr.denominator))

    x = z3.ToReal(n) * R(ulp)
    dec = z3.ToReal(m) * R(q)
    y = z3.ToReal(n2) * R(ulp)
    s.add(x >= R(lo), x < R(hi), n >= 2 ** 52, n < 2 ** 53)
    s.add(dec - x <= R(q / 2), x - dec <= R(q / 2))  # correctly rounded decimal
    s.add(y - dec <= R(ulp / 2), dec - y <= R(ulp / 2))  # correctly rounded double of that decimal
    s.add(z3.Or(n2 - n >= 2, n - n2 >= 2))
    t0 = time.time()
    r = str(s.check())
    out = None
    if r == "sat":
        out = float(F(s.model()[n].as_long()) * ulp)
    return r, out, time.time() - t0


def check_literals(chk, tier):
    import math

    from ffcx.codegeneration.C.formatter import Formatter as CF

    digits = formatter_digits()
    cf = CF("float64")
    if digits is None:
        chk.inconc("C formatter _format_number does not print a fixed number of significant digits: the D-digit model does not apply; only the witness replay below is run")
        digits = 17
    binades = list(range(-1074 + 52, 1023)) if tier == "thorough" else list(range(-12, 13)) + [-1022, -500, -300, -100, -52, 52, 100, 300, 500, 1000, 1022]
    nseg = 0
    worst = None
    for e in binades:
        dlo = math.floor(float(F(2) ** e).hex() and math.log10(2) * e) - 1
        for d in range(dlo, dlo + 3):
            res = seg_query(e, d, digits, None)
            if res is None:
                continue
            nseg += 1
            r, x, dt = res
            chk.q("Q-lia-literal", r, dt)
            if r == "sat":
                text = cf._format_number(x)
                back = float(text)
                ulps = abs(back - x) / math.ulp(x)
                if ulps > 1.0:
                    if worst is None or ulps > worst[0]:
                        worst = (ulps, x, text, e, d)
                else:
                    chk.inconc(f"literal segment e={e} d={d}: solver witness {x!r} reads back within 1 ulp")
            elif r != "unsat":
                chk.inconc(f"literal segment e={e} d={d}: {r}")
    chk.extra["literal_segments"] = nseg
    chk.extra["literal_digits_modelled"] = digits
    if worst is not None:
        ulps, x, text, e, d = worst
        src = ("#!/verif/.venv/bin/python\nimport sys, math\nsys.path[:0]=['/repo']\nfrom ffcx.codegeneration.C.formatter import Formatter\n"
               f"x = {x!r}\nt = Formatter('float64')._format_number(x)\nb = float(t)\nu = abs(b - x) / math.ulp(x)\n"
               "print('value', repr(x), 'printed as', t, 'reads back as', repr(b), 'error', u, 'ulp')\nprint('REPRODUCED' if u > 1 else 'not reproduced')\nsys.exit(1 if u > 1 else 0)\n")
        chk.violation("literal:float64:roundtrip", f"C literal of {x!r} is printed as {text} which reads back {ulps:.2f} ulp away (binade 2^{e}, decade 10^{d}; {digits} significant digits)", src)
    # numba / python side: str(value) must read back exactly (shortest round-trip repr)
    from ffcx.codegeneration.numba.formatter import Formatter as NF

    nfm = NF("float64")
    ln = L()
    for x in [0.1, 1.0000000000000004, 1023.9999999999995, 5e-324, 1.7976931348623157e308, -2.2250738585072014e-308, 1 / 3]:
        t = nfm(ln.LiteralFloat(x))
        if float(t) != x:
            chk.violation("literal:numba:roundtrip", f"numba literal of {x!r} printed as {t}", None)
    chk.sample({"literal_segment": "binade 2^0, decade 10^0", "query": "exists n in [2^52,2^53): dec = round_D(n*2^-52), y = round_double(dec), |y - x| >= 2 ulp"})
