"""Kernel mini-IR shared by the C and numba front-ends, plus the symbolic
interpreter (fully unrolled, polynomial value domain) and the non-unrolled
access-site collector used for the LIA bounds queries.

IR statements (tuples):
  ("decl", name, tclass, shape|None, init|None, quals:set, line)
  ("assign", lhs, op, rhs, line)          op in "=", "+=", "-=", "*=", "/="
  ("for", var, begin, end, body:list, line)
  ("block", body:list)
IR expressions:
  ("num", python_number)                  int | float | complex
  ("id", name)
  ("idx", name, [exprs])
  ("bin", op, a, b)   ("un", op, a)   ("cond", c, t, f)
  ("call", fname, [args])
  ("init", [nested ...])                  only as decl init
tclass in {"real", "complex", "int", "bool", "auto"}
"""

from __future__ import annotations

from fractions import Fraction

from .poly import CPoly, Ctx, KsymError, Poly, parts, real_part

# C / numpy function name -> (generic op, "r" real variant | "c" complex variant | "x" special)
FUNCS = {}
for _n, _g in [
    ("sqrt", "sqrt"), ("cos", "cos"), ("sin", "sin"), ("tan", "tan"), ("acos", "acos"), ("asin", "asin"),
    ("atan", "atan"), ("cosh", "cosh"), ("sinh", "sinh"), ("tanh", "tanh"), ("acosh", "acosh"),
    ("asinh", "asinh"), ("atanh", "atanh"), ("pow", "pow"), ("exp", "exp"), ("log", "ln"), ("erf", "erf"),
    ("atan2", "atan2"), ("fmin", "min"), ("fmax", "max"), ("fabs", "abs"),
]:
    for _suf in ("", "f", "l"):
        FUNCS[_n + _suf] = (_g, "r")
for _n, _g in [
    ("csqrt", "sqrt"), ("ccos", "cos"), ("csin", "sin"), ("ctan", "tan"), ("cacos", "acos"), ("casin", "asin"),
    ("catan", "atan"), ("ccosh", "cosh"), ("csinh", "sinh"), ("ctanh", "tanh"), ("cacosh", "acosh"),
    ("casinh", "asinh"), ("catanh", "atanh"), ("cpow", "pow"), ("cexp", "exp"), ("clog", "ln"),
    ("cabs", "cabs"), ("creal", "creal"), ("cimag", "cimag"), ("conj", "conj"),
]:
    for _suf in ("", "f", "l"):
        FUNCS[_n + _suf] = (_g, "c")
FUNCS["jn"] = ("bessel_j", "r")
FUNCS["yn"] = ("bessel_y", "r")
# python spellings (numba backend); "p" = polymorphic on the argument as numpy is
for _n, _g in [
    ("np.sqrt", "sqrt"), ("np.cos", "cos"), ("np.sin", "sin"), ("np.tan", "tan"), ("np.arccos", "acos"),
    ("np.arcsin", "asin"), ("np.arctan", "atan"), ("np.cosh", "cosh"), ("np.sinh", "sinh"), ("np.tanh", "tanh"),
    ("np.arccosh", "acosh"), ("np.arcsinh", "asinh"), ("np.arctanh", "atanh"), ("np.power", "pow"),
    ("np.exp", "exp"), ("np.log", "ln"), ("np.abs", "pabs"), ("np.real", "creal"), ("np.imag", "cimag"),
    ("np.conj", "conj"), ("np.arctan2", "atan2"), ("np.minimum", "min"), ("np.maximum", "max"),
    ("np.fmin", "min"), ("np.fmax", "max"), ("np.min", "min"), ("np.max", "max"),
]:
    FUNCS[_n] = (_g, "p")
FUNCS["math.erf"] = ("erf", "r")
FUNCS["scipy.special.jn"] = ("bessel_j", "r")
FUNCS["scipy.special.yn"] = ("bessel_y", "r")


class Event:
    __slots__ = ("kind", "array", "index", "extent", "line", "detail")

    def __init__(self, kind, array, index, extent, line, detail=""):
        self.kind, self.array, self.index, self.extent, self.line, self.detail = kind, array, index, extent, line, detail

    def __repr__(self):
        return f"{self.kind}:{self.array}[{self.index}] extent={self.extent} line={self.line} {self.detail}"


class Arr:
    __slots__ = ("name", "shape", "data", "tclass", "role", "const", "static", "written")

    def __init__(self, name, shape, data, tclass, role, const=False, static=False):
        self.name, self.shape, self.data, self.tclass, self.role = name, tuple(shape), data, tclass, role
        self.const, self.static = const, static
        self.written = None  # None = all initialised; else list of bools

    def flat(self, idx):
        if len(idx) != len(self.shape):
            raise KsymError(f"rank mismatch on {self.name}: {idx} vs {self.shape}")
        f = 0
        ok = True
        for i, n in zip(idx, self.shape):
            if i < 0 or i >= n:
                ok = False
            f = f * n + i
        return f, ok


UNINIT = object()


class Interp:
    """Fully-unrolled symbolic interpreter of one kernel body."""

    def __init__(self, ctx: Ctx, lang: str, complex_mode: bool):
        self.ctx = ctx
        self.lang = lang  # "c" | "py"
        self.complex_mode = complex_mode
        self.scopes: list[dict] = [{}]
        self.events: list[Event] = []
        self.reads: dict[str, set] = {}
        self.writes: dict[str, set] = {}
        self.decl_types: dict[str, str] = {}
        self.statics_nonconst: list[str] = []
        self.narrowings: list[str] = []
        self.declared_sizes: dict[str, int] = {}
        self.steps = 0
        self.max_terms = 0
        self.term_budget = 400000

    # ---- scopes
    def lookup(self, name):
        for s in reversed(self.scopes):
            if name in s:
                return s[name]
        return None

    def declare(self, name, slot, line=None):
        s = self.scopes[-1]
        if name in s and self.lang == "c":
            self.events.append(Event("redeclared", name, None, None, line))
        s[name] = slot

    def bind_param(self, name, arr: Arr):
        self.scopes[0][name] = arr

    # ---- conversion of values to declared class
    def coerce(self, v, tclass, where=""):
        if tclass in ("auto", None):
            return v
        if tclass == "int":
            if isinstance(v, int):
                return v
            if isinstance(v, Poly) and v.is_const() and v.const_value().denominator == 1:
                return int(v.const_value())
            raise KsymError(f"non-integer value stored in int {where}")
        if tclass == "bool":
            if isinstance(v, int):
                return self.ctx.const(1 if v else 0)
            if isinstance(v, CPoly):
                raise KsymError("complex stored in bool")
            return v
        if tclass == "real":
            if isinstance(v, CPoly):
                if not v.im.is_zero():
                    self.narrowings.append(where)
                return v.re
            if isinstance(v, int):
                return self.ctx.const(v)
            return v
        if tclass == "complex":
            if isinstance(v, CPoly):
                return v
            if isinstance(v, int):
                v = self.ctx.const(v)
            return CPoly(v, self.ctx.const(0))
        raise KsymError(f"unknown type class {tclass}")

    # ---- statements
    def run(self, body):
        for st in body:
            self.stmt(st)

    def stmt(self, st):
        k = st[0]
        if k == "decl":
            _, name, tclass, shape, init, quals, line = st
            self.decl_types[name] = tclass
            if shape is None:
                if init is None:
                    self.declare(name, [UNINIT, tclass], line)
                else:
                    v = self.coerce(self.eval(init), tclass, name)
                    self.declare(name, [v, tclass], line)
            else:
                n = 1
                for d in shape:
                    n *= d
                static = "static" in quals
                const = "const" in quals
                if static and not const:
                    self.statics_nonconst.append(name)
                if init is None:
                    arr = Arr(name, shape, [UNINIT] * n, tclass, "local", const, static)
                else:
                    flat = self._flatten_init(init, shape, tclass, name)
                    arr = Arr(name, shape, flat, tclass, "table" if const else "local", const, static)
                self.declare(name, arr, line)
        elif k == "assign":
            self.assign(st)
        elif k == "for":
            _, var, b, e, body, line = st
            lo, hi = self.eval(b), self.eval(e)
            if not isinstance(lo, int) or not isinstance(hi, int):
                raise KsymError(f"non-literal loop bound at line {line}")
            for i in range(lo, hi):
                self.scopes.append({var: [i, "int"]})
                self.run(body)
                self.scopes.pop()
        elif k == "block":
            self.scopes.append({})
            self.run(st[1])
            self.scopes.pop()
        elif k == "alias":
            _, name, src, size, line = st
            arr = self.lookup(src)
            if not isinstance(arr, Arr):
                raise KsymError(f"carray of unknown parameter {src}")
            self.declared_sizes[name] = size
            self.declare(name, arr, line)
        else:
            raise KsymError(f"unknown statement {k}")

    def _flatten_init(self, init, shape, tclass, name):
        zero = 0 if tclass == "int" else self.coerce(self.ctx.const(0), tclass)
        n = 1
        for d in shape:
            n *= d
        out = [zero] * n

        def fill(node, dims, base):
            if node[0] != "init":
                # scalar initialiser for an aggregate (e.g. np.full value)
                v = self.coerce(self.eval(node), tclass, name)
                return v
            items = node[1]
            stride = 1
            for d in dims[1:]:
                stride *= d
            if len(items) > dims[0]:
                raise KsymError(f"too many initialisers for {name}")
            for i, it in enumerate(items):
                if len(dims) == 1:
                    if it[0] == "init":
                        if len(it[1]) != 1:
                            raise KsymError(f"nested initialiser too deep for {name}")
                        it = it[1][0]
                    out[base + i] = self.coerce(self.eval(it), tclass, name)
                else:
                    if it[0] != "init":
                        # brace elision, C: {0} for multi-dim
                        if i == 0 and len(items) == 1:
                            out[base] = self.coerce(self.eval(it), tclass, name)
                            continue
                        raise KsymError(f"brace elision in initialiser of {name}")
                    fill(it, dims[1:], base + i * stride)
            return None

        if init[0] == "fill":
            v = self.coerce(self.eval(init[1]), tclass, name)
            return [v] * n
        fill(init, list(shape), 0)
        return out

    def assign(self, st):
        _, lhs, op, rhs, line = st
        v = self.eval(rhs)
        if lhs[0] == "id":
            name = lhs[1]
            slot = self.lookup(name)
            if slot is None:
                if self.lang == "py":
                    if op != "=":
                        raise KsymError(f"augmented assignment to undefined {name}")
                    self.decl_types[name] = "auto"
                    self.declare(name, [v, "auto"], line)
                    return
                self.events.append(Event("undeclared", name, None, None, line))
                raise KsymError(f"assignment to undeclared identifier {name} (line {line})")
            if isinstance(slot, Arr):
                raise KsymError(f"assignment to array name {name}")
            if op != "=":
                cur = slot[0]
                if cur is UNINIT:
                    cur = self.ctx.havoc(f"uninit {name}")
                    self.events.append(Event("uninit_read", name, None, None, line))
                v = self.binop(op[0], cur, v)
            slot[0] = self.coerce(v, slot[1], name) if self.lang == "c" else v
            return
        if lhs[0] == "idx":
            name, idxs = lhs[1], lhs[2]
            arr = self.lookup(name)
            if not isinstance(arr, Arr):
                raise KsymError(f"subscript of non-array {name} (line {line})")
            idx = [self.eval(i) for i in idxs]
            if not all(isinstance(i, int) for i in idx):
                raise KsymError(f"symbolic subscript in store to {name}")
            f, ok = arr.flat(idx)
            self.writes.setdefault(name, set()).add(f)
            if arr.role in ("in", "intin") or arr.const:
                self.events.append(Event("write_input", name, f, len(arr.data), line))
            if not ok or f >= len(arr.data):
                self.events.append(Event("oob_write", name, idx, arr.shape, line))
                return
            if op != "=":
                cur = arr.data[f]
                if cur is UNINIT:
                    cur = self.ctx.havoc(f"uninit {name}[{f}]")
                    self.events.append(Event("uninit_read", name, f, None, line))
                v = self.binop(op[0], cur, v)
            arr.data[f] = self.coerce(v, arr.tclass, name)
            return
        raise KsymError(f"bad assignment target {lhs[0]}")

    # ---- expressions
    def eval(self, e):
        k = e[0]
        if k == "num":
            v = e[1]
            if isinstance(v, bool):
                return int(v)
            if isinstance(v, int):
                return v
            if isinstance(v, float):
                return self.ctx.const(v)
            if isinstance(v, complex):
                return CPoly(self.ctx.const(v.real), self.ctx.const(v.imag))
            raise KsymError(f"bad literal {v!r}")
        if k == "id":
            name = e[1]
            if name in ("_Complex_I", "I") and self.lookup(name) is None:
                return CPoly(self.ctx.const(0), self.ctx.const(1))
            slot = self.lookup(name)
            if slot is None:
                raise KsymError(f"use of undeclared identifier {name}")
            if isinstance(slot, Arr):
                raise KsymError(f"array {name} used as value")
            if slot[0] is UNINIT:
                self.events.append(Event("uninit_read", name, None, None, None))
                slot[0] = self.ctx.havoc(f"uninit {name}")
            return slot[0]
        if k == "idx":
            name = e[1]
            arr = self.lookup(name)
            if not isinstance(arr, Arr):
                raise KsymError(f"subscript of non-array {name}")
            idx = [self.eval(i) for i in e[2]]
            if not all(isinstance(i, int) for i in idx):
                raise KsymError(f"symbolic subscript in load from {name}")
            f, ok = arr.flat(idx)
            self.reads.setdefault(name, set()).add(f)
            if not ok or f >= len(arr.data):
                self.events.append(Event("oob_read", name, idx, arr.shape, None))
                return self.ctx.havoc(f"oob {name}{idx}")
            v = arr.data[f]
            if v is UNINIT:
                self.events.append(Event("uninit_read", name, f, None, None))
                v = self.ctx.havoc(f"uninit {name}[{f}]")
                arr.data[f] = v
            return v
        if k == "bin":
            op = e[1]
            if op in ("&&", "||"):
                a = self.truth(self.eval(e[2]))
                b = self.truth(self.eval(e[3]))
                if op == "&&":
                    return a * b
                return a + b - a * b
            return self.binop(op, self.eval(e[2]), self.eval(e[3]))
        if k == "un":
            op = e[1]
            a = self.eval(e[2])
            if op == "-":
                return -a
            if op == "+":
                return a
            if op == "!":
                if isinstance(a, int):
                    return int(not a)
                return self.ctx.const(1) - self.truth(a)
            raise KsymError(f"unary {op}")
        if k == "cond":
            c = self.eval(e[1])
            if isinstance(c, int):
                return self.eval(e[2]) if c else self.eval(e[3])
            b = self.truth(c)
            t, f = self.eval(e[2]), self.eval(e[3])
            if isinstance(t, int):
                t = self.ctx.const(t)
            if isinstance(f, int):
                f = self.ctx.const(f)
            if b.is_const():
                return t if b.const_value() != 0 else f
            return b * t + (self.ctx.const(1) - b) * f
        if k == "call":
            return self.call(e[1], [self.eval(a) for a in e[2]])
        raise KsymError(f"unknown expression {k}")

    def truth(self, v) -> Poly:
        if isinstance(v, int):
            return self.ctx.const(1 if v else 0)
        if isinstance(v, CPoly):
            raise KsymError("complex truth value")
        vs = v.vars()
        if v.is_const():
            return self.ctx.const(1 if v.const_value() != 0 else 0)
        if vs and all(x in self.ctx.boolset for x in vs) and len(v.t) <= 4:
            # already a 0/1 valued combination of indicator atoms
            return v
        return self.ctx.cmp("ne", v)

    def binop(self, op, a, b):
        ia, ib = isinstance(a, int), isinstance(b, int)
        if ia and ib:
            if op == "+":
                return a + b
            if op == "-":
                return a - b
            if op == "*":
                return a * b
            if op == "/":
                if self.lang == "c":
                    if b == 0:
                        raise KsymError("integer division by zero")
                    q = abs(a) // abs(b)
                    return q if (a >= 0) == (b >= 0) else -q
                return self.ctx.const(Fraction(a, b))
            if op == "%":
                return a % b if self.lang == "py" else int(a - b * int(a / b))
            if op in ("<", ">", "<=", ">=", "==", "!="):
                return int({"<": a < b, ">": a > b, "<=": a <= b, ">=": a >= b, "==": a == b, "!=": a != b}[op])
            raise KsymError(f"int op {op}")
        if ia:
            a = self.ctx.const(a)
        if ib:
            b = self.ctx.const(b)
        if op == "+":
            r = a + b
        elif op == "-":
            r = a - b
        elif op == "*":
            r = a * b
        elif op == "/":
            r = a / b
        elif op in ("<", ">", "<=", ">=", "==", "!="):
            if isinstance(a, CPoly) or isinstance(b, CPoly):
                if op in ("==", "!="):
                    ar, ai = parts(a)
                    br, bi = parts(b)
                    eq = self.ctx.cmp("eq", ar - br) * self.ctx.cmp("eq", ai - bi)
                    return eq if op == "==" else self.ctx.const(1) - eq
                raise KsymError("ordered comparison of complex values")
            return self.ctx.cmp({"<": "lt", ">": "gt", "<=": "le", ">=": "ge", "==": "eq", "!=": "ne"}[op], a - b)
        else:
            raise KsymError(f"binary {op}")
        n = r.nterms()
        if n > self.max_terms:
            self.max_terms = n
            if n > self.term_budget:
                raise BudgetExceeded(n)
        return r

    def call(self, fname, args):
        if fname not in FUNCS:
            raise KsymError(f"call of unknown function {fname}")
        g, variant = FUNCS[fname]
        args = [self.ctx.const(a) if isinstance(a, int) else a for a in args]
        ctx = self.ctx
        if variant == "p":
            # numpy: polymorphic on argument type
            anyc = any(isinstance(a, CPoly) for a in args)
            if g == "pabs":
                g = "cabs" if anyc else "abs"
            variant = "c" if (anyc or g in ("creal", "cimag", "conj")) else "r"
        if variant == "r":
            # C: complex argument converted to real (imaginary part discarded)
            ra = []
            for a in args:
                if isinstance(a, CPoly):
                    if not a.im.is_zero():
                        self.narrowings.append(f"{fname}(complex)")
                    a = a.re
                ra.append(a)
            if g == "abs":
                return ctx.abs(ra[0])
            if g == "sqrt":
                return ctx.sqrt(ra[0])
            if g == "pow" and ra[1].is_const() and ra[1].const_value().denominator == 1 and 0 <= ra[1].const_value() <= 6:
                return ra[0] ** int(ra[1].const_value())
            if g in ("min", "max"):
                # min(a,b) = b + [a<b](a-b)
                a, b = ra
                ind = ctx.cmp("lt", a - b) if g == "min" else ctx.cmp("gt", a - b)
                return b + ind * (a - b)
            return ctx.fn(g, ra)
        # complex variants
        ca = [a if isinstance(a, CPoly) else CPoly(a, ctx.const(0)) for a in args]
        if g == "creal":
            return ca[0].re
        if g == "cimag":
            return ca[0].im
        if g == "conj":
            return ca[0].conj()
        if g == "cabs":
            if ca[0].im.is_zero():
                return ctx.abs(ca[0].re)
            return ctx.sqrt(ca[0].re * ca[0].re + ca[0].im * ca[0].im)
        if g == "pow" and ca[1].im.is_zero() and ca[1].re.is_const() and ca[1].re.const_value().denominator == 1 and 0 <= ca[1].re.const_value() <= 6:
            r = CPoly(ctx.const(1), ctx.const(0))
            for _ in range(int(ca[1].re.const_value())):
                r = r * ca[0]
            return r
        if all(a.im.is_zero() for a in ca) and g in ("exp", "cos", "sin", "cosh", "sinh", "tan", "tanh", "atan", "asinh"):
            # entire (or real-analytic on R) functions: real on the real axis
            return CPoly(ctx.fn(g, [a.re for a in ca]), ctx.const(0))
        if all(a.im.is_zero() for a in ca) and g in ("sqrt", "ln", "acos", "asin", "acosh", "atanh", "pow"):
            # real argument assumed inside the function's real domain (same assumption as the
            # real atoms make: sqrt/ln arguments non-negative / positive)
            ra = [a.re for a in ca]
            if g == "sqrt":
                return CPoly(ctx.sqrt(ra[0]), ctx.const(0))
            return CPoly(ctx.fn(g, ra), ctx.const(0))
        return ctx.cfn(g, ca)


from .poly import BudgetExceeded  # noqa: E402  (single definition shared with the value domain)


# ---------------------------------------------------------------------------
# non-unrolled walk: access sites with symbolic loop indices (for LIA queries)


class Site:
    __slots__ = ("array", "index", "loops", "write", "line", "shape")

    def __init__(self, array, index, loops, write, line, shape=None):
        self.array, self.index, self.loops, self.write, self.line, self.shape = array, index, loops, write, line, shape


INT_TABLES: dict = {}


def _int_leaves(init):
    out = []

    def w(e):
        if e[0] in ("init",):
            for x in e[1]:
                w(x)
        elif e[0] == "fill":
            w(e[1])
        elif e[0] == "num" and isinstance(e[1], int):
            out.append(e[1])
        elif e[0] == "un" and e[1] == "-" and e[2][0] == "num":
            out.append(-e[2][1])

    w(init)
    return out


def collect_sites(body, lang="c"):
    """Return (sites, decls): each site carries the IR index expressions, the enclosing loops
    [(var, begin_expr, end_expr)] and the shape of the local array visible at that point
    (None for parameters); decls maps array name -> last declared shape."""
    sites: list[Site] = []
    decls: dict[str, tuple] = {}
    scopes: list[dict] = [{}]
    INT_TABLES.clear()

    def shape_of(name):
        for sc in reversed(scopes):
            if name in sc:
                return sc[name]
        return None

    def walk_expr(e, loops, line):
        k = e[0]
        if k == "idx":
            sites.append(Site(e[1], e[2], list(loops), False, line, shape_of(e[1])))
            for i in e[2]:
                walk_expr(i, loops, line)
        elif k == "bin":
            walk_expr(e[2], loops, line)
            walk_expr(e[3], loops, line)
        elif k == "un":
            walk_expr(e[2], loops, line)
        elif k == "cond":
            for x in e[1:]:
                walk_expr(x, loops, line)
        elif k == "call":
            for a in e[2]:
                walk_expr(a, loops, line)
        elif k == "init":
            for a in e[1]:
                walk_expr(a, loops, line)
        elif k == "fill":
            walk_expr(e[1], loops, line)

    def walk(stmts, loops):
        for st in stmts:
            k = st[0]
            if k == "decl":
                _, name, tclass, shape, init, quals, line = st
                if init is not None and shape is None:
                    walk_expr(init, loops, line)
                if shape is not None:
                    decls[name] = tuple(shape)
                    scopes[-1][name] = tuple(shape)
                    if tclass == "int" and init is not None:
                        vals = _int_leaves(init)
                        if vals:
                            INT_TABLES[name] = (min(vals), max(vals))
            elif k == "assign":
                _, lhs, op, rhs, line = st
                if lhs[0] == "idx":
                    sites.append(Site(lhs[1], lhs[2], list(loops), True, line, shape_of(lhs[1])))
                    for i in lhs[2]:
                        walk_expr(i, loops, line)
                walk_expr(rhs, loops, line)
            elif k == "for":
                _, var, b, e, body, line = st
                scopes.append({})
                walk(body, loops + [(var, b, e)])
                scopes.pop()
            elif k == "block":
                scopes.append({})
                walk(st[1], loops)
                scopes.pop()

    walk(body, [])
    return sites, decls
