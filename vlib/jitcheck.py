"""Queries for C14 (no faults) and C15 (faults, kills) on the extracted JIT protocol model."""
from __future__ import annotations

import json
import time

import z3

from . import jitbmc


def build(N, T, faults, kills, extended=False, entry="forms"):
    leaves = jitbmc.extract_tree(T=T, entry=entry, extended=extended)
    tree = jitbmc.Tree(leaves)
    maxlen = max(len(ev) for _, _, _, ev in leaves)
    K = N * maxlen + (2 if kills else 0)
    return leaves, tree, jitbmc.Model(tree, N, K, faults, kills), K


def describe(trace):
    return [f"p{st['proc']}:{'KILL' if st['kill'] else st['event']}{'!fault' if st['fault'] else ''}" for st in trace]


def replay_src(pid, N, T, trace, what):
    return ("#!/verif/.venv/bin/python\nimport sys, json\nsys.path[:0]=['/verif','/repo']\nfrom vlib import jitcheck\n"
            f"sys.exit(jitcheck.replay({pid!r}, {N}, {T}, json.loads({json.dumps(json.dumps(trace, default=str))}), {what!r}))\n")


def replay(pid, N, T, trace, what):
    for st in trace:
        if isinstance(st.get("event"), list):
            st["event"] = tuple(st["event"])
    obs, results, glob = jitbmc.replay_trace(trace, N, T)
    print("schedule :", describe(trace))
    print("observed :", obs)
    print("results  :", results, glob)
    bad = check_observation(what, obs, results, glob)
    print("REPRODUCED" if bad else "not reproduced")
    return 1 if bad else 0


def check_observation(what, obs, results, glob):
    if what == "double-build":
        return len({p for p, ev in obs if ev == ("codegen",)}) >= 2
    if what == "bad-load":
        return any(ev[0] == "loaded_so_state" and ev[1] != 2 for p, ev in obs)
    if what == "bad-leaf":
        if any(r == ("return", False) for r in results.values()):
            # objects other than the requested ones (or in another order): confirm on a real cffi build
            return replay_real_objects(quiet=True)
        return any(r[0] == "raise" and r[1] != "TimeoutError" for r in results.values())
    if what == "recompile-after-cached":
        return True
    if what == "handlers":
        return not glob["handlers_restored"]
    if what == "lock-not-released":
        return True
    return False


def module_names_across_processes(seeds=("0", "1", "4242"), quiet=True):
    """The BMC identifies the N requests by ONE module name.  That assumption is part of the property
    (same forms + options + flags => same name in every process): computed here in real interpreter
    processes with different hash seeds, with several compile flags in the request."""
    import os
    import subprocess

    from . import sigcheck

    outs = []
    for sd in seeds:
        r = subprocess.run(["/venv/bin/python", "-c", sigcheck.STAB, os.environ.get("VERIF_REPO", "/repo"), "0", "a"], capture_output=True, text=True,
                           env=dict(os.environ, PYTHONHASHSEED=sd, PYTHONPATH=""))
        if r.returncode:
            return None, r.stderr[-300:]
        outs.append(json.loads(r.stdout.strip().splitlines()[-1]))
    names = sorted({o["module"] for o in outs})
    if not quiet:
        print("module names computed by", len(seeds), "processes for the same request:", names)
        print("REPRODUCED" if len(names) > 1 else "not reproduced")
    return names, None


def run_c14(chk, tier):
    names, err = module_names_across_processes(("0", "1", "4242") if tier == "quick" else ("0", "1", "2", "77", "4242", "99999"))
    chk.cases.append("one-module-name-assumption")
    if names is None:
        chk.harness_error(f"module-name subprocess failed: {err}")
    elif len(names) > 1:
        src = ("#!/verif/.venv/bin/python\nimport sys\nsys.path[:0]=['/verif','/repo']\nfrom vlib import jitcheck\n"
               "n, _ = jitcheck.module_names_across_processes(quiet=False)\nsys.exit(1 if n and len(n) > 1 else 0)\n")
        chk.violation("jit:module-name-differs-between-processes", f"processes requesting the same forms with the same options and compile flags compute different module names {names[:2]}: each takes its own lock and compiles (no mutual exclusion, no reuse)", src)
    cfgs = [(2, 2)] if tier == "quick" else [(2, 2), (2, 3), (3, 2), (3, 3)]
    for N, T in cfgs:
        t0 = time.time()
        leaves, tree, M, K = build(N, T, faults=False, kills=False)
        chk.cases.append(f"bmc:N={N}:T={T}")
        chk.extra["states"] = chk.extra.get("states", 0) + tree.size() * N
        chk.extra["transitions"] = chk.extra.get("transitions", 0) + sum(len(n["children"]) for n in tree.nodes) * N * K
        ok_leaf = M.leaf_ids(lambda lf: lf[0] == ("return", "objects") or lf[0] == ("raise", "TimeoutError"))
        all_leaf = M.leaf_ids(lambda lf: True)
        bad_leaf = [l for l in all_leaf if l not in ok_leaf]
        # reachability witness (vacuity guard): some process reaches a successful leaf
        ret = M.leaf_ids(lambda lf: lf[0] == ("return", "objects"))
        r, tr, dt = M.query(z3.Or(*[M.pc[K][0] == l for l in ret]))
        chk.q("BMC-reach", r, dt)
        chk.twins_run += 1
        if r == "sat":
            chk.twins_ok += 1
            chk.sample({"N": N, "T": T, "depth": K, "witness_schedule": describe(tr)})
        else:
            chk.harness_error(f"BMC N={N} T={T}: success leaf unreachable ({r}): model is vacuous")
        props = [
            ("double-build", z3.Or(*[z3.And(M.built[K][p], M.built[K][q]) for p in range(N) for q in range(p + 1, N)]), "two processes both take the build branch"),
            ("bad-load", M.badload[K], "a module is loaded while the shared object is not completely built"),
            ("bad-leaf", z3.Or(*[M.pc[K][p] == l for p in range(N) for l in bad_leaf]) if bad_leaf else z3.BoolVal(False), "a request ends in something other than the requested objects in request order, or TimeoutError, although nothing failed"),
            ("recompile-after-cached", z3.Or(*[z3.And(M.started_after_cached[K][p], M.built[K][p]) for p in range(N)]), "a request that started after the ready marker existed compiled again"),
            ("cached-start-not-loaded", z3.Or(*[z3.And(M.started_after_cached[K][p], z3.Or(*[M.pc[K][p] == l for l in all_leaf if l not in ret])) for p in range(N)]), "a request that started after the ready marker existed did not return the cached objects"),
        ]
        for key, bad, text in props:
            r, tr, dt = M.query(bad)
            chk.q("BMC", r, dt)
            if r == "sat":
                obs, results, glob = jitbmc.replay_trace(tr, N, T)
                chk.extra["traces_validated_against_impl"] = chk.extra.get("traces_validated_against_impl", 0) + 1
                if check_observation(key, obs, results, glob):
                    chk.violation(f"jit:{key}:N={N}", f"{text} (N={N}, T={T}): schedule {describe(tr)}", replay_src("C14", N, T, tr, key))
                else:
                    chk.inconc(f"BMC N={N} T={T} {key}: model counterexample not reproduced by the real functions under the scheduled environment: {describe(tr)}")
            elif r != "unsat":
                chk.inconc(f"BMC N={N} T={T} {key}: solver {r}")
        # model validation: the witness schedule is executed by the real functions and must be followed
        if tr is None:
            r0, tr0, _ = M.query(z3.And(*[z3.Or(*[M.pc[K][p] == l for l in ret]) for p in range(N)]))
            if r0 == "sat":
                obs, results, glob = jitbmc.replay_trace(tr0, N, T)
                chk.extra["traces_validated_against_impl"] = chk.extra.get("traces_validated_against_impl", 0) + 1
                want = [(st["proc"], st["event"]) for st in tr0 if not st["kill"]]
                got = [(p, ev) for p, ev in obs if ev[0] != "loaded_so_state"]
                if got[: len(want)] != want or not all(v == ("return", True) for v in results.values()):
                    chk.harness_error(f"BMC N={N} T={T}: all-succeed schedule from the model is not what the real functions do: model {want[:12]} real {got[:12]} results {results}")
        chk.solver_s += 0
    chk.extra["tree_nodes"] = tree.size()


def run_c15(chk, tier):
    # (1) per-process leaves: a raising build must release the lock and restore process globals
    for T in ([2] if tier == "quick" else [2, 3]):
        for extended in ([False] if tier == "quick" else [False, True]):
            leaves = jitbmc.extract_tree(T=T, extended=extended)
            for sc, res, restored, events in leaves:
                names = [e[0][0] for e in events]
                chk.cases.append(f"leaf:T={T}:ext={extended}:{sc}")
                if res[0] == "raise" and res[1] != "TimeoutError":
                    built = "codegen" in names
                    if built and "rename_c_failed" not in names:
                        chk.violation(f"jit:lock-not-released:{[e[0] for e in events if e[1] in ('fail', 'exists')]}", f"failing build {[e for e in events if e[1] in ('fail','exists')]} raises {res[1]} without renaming the lock file", None)
                    if not restored["handlers"] or not restored["stdout"]:
                        failing = [f"{e[0][0]}{':' + str(e[0][1]) if len(e[0]) > 1 else ''}={e[1]}" for e in events if e[1] in ("fail", "exists") and e[0][0] != "open_x" or (e[0] == ("open_x", "cached") and e[1] == "exists")]
                        key = f"jit:globals-not-restored:{failing[-1] if failing else res[1]}"
                        src = ("#!/verif/.venv/bin/python\nimport sys\nsys.path[:0]=['/verif','/repo']\nfrom vlib import jitcheck\nsys.exit(jitcheck.replay_handlers())\n")
                        ok = replay_handlers(quiet=True) if "cc=fail" in failing else True
                        if ok:
                            chk.violation(key, f"after a build failing at {failing} (raises {res[1]}) logging.getLogger().handlers / sys.stdout are not restored: {restored}", src)
                        else:
                            chk.inconc(f"{key}: not reproduced with the real cffi build")
    # (2) BMC with fault and kill choices
    cfgs = [(2, 2)] if tier == "quick" else [(2, 2), (2, 3), (3, 2)]
    for N, T in cfgs:
        leaves, tree, M, K = build(N, T, faults=True, kills=True)
        chk.cases.append(f"bmc-faults:N={N}:T={T}")
        chk.extra["states"] = chk.extra.get("states", 0) + tree.size() * N
        chk.extra["transitions"] = chk.extra.get("transitions", 0) + sum(len(n["children"]) for n in tree.nodes) * N * K
        ret = M.leaf_ids(lambda lf: lf[0] == ("return", "objects"))
        fail_leaf = M.leaf_ids(lambda lf: lf[0][0] == "raise" and lf[0][1] != "TimeoutError")
        # vacuity: a failing leaf is reachable with a fault
        r, tr, dt = M.query(z3.Or(*[M.pc[K][0] == l for l in fail_leaf]))
        chk.q("BMC-reach", r, dt)
        chk.twins_run += 1
        if r == "sat":
            chk.twins_ok += 1
            chk.sample({"N": N, "T": T, "depth": K, "fault_schedule": describe(tr)})
        else:
            chk.harness_error(f"fault BMC N={N} T={T}: failing leaf unreachable ({r})")
        props = [
            ("bad-load", M.badload[K], "a partial or missing module is loaded after a failure/kill"),
            # after a raising build of p (it is at a failing leaf), the lock is released: c absent unless another process re-created it.
            ("lock-held-after-failure", z3.And(z3.Or(*[M.pc[K][0] == l for l in fail_leaf]), M.c[K] == jitbmc.PRESENT, z3.Not(z3.Or(*[M.built[K][p] for p in range(1, N)])),
                                               z3.And(*[z3.Not(k) for k in M.kill]), z3.And(*[M.pc[K][p] == 0 for p in range(1, N)])),
             "a failed build leaves the lock file in place (later requests would wait for a marker that never comes)"),
        ]
        for key, bad, text in props:
            r, tr, dt = M.query(bad)
            chk.q("BMC", r, dt)
            if r == "sat":
                obs, results, glob = jitbmc.replay_trace(tr, N, T)
                chk.extra["traces_validated_against_impl"] = chk.extra.get("traces_validated_against_impl", 0) + 1
                if check_observation("bad-load" if key == "bad-load" else "lock-not-released", obs, results, glob):
                    chk.violation(f"jit:{key}:N={N}", f"{text} (N={N}, T={T}): schedule {describe(tr)}", replay_src("C15", N, T, tr, key))
                else:
                    chk.inconc(f"fault BMC N={N} T={T} {key}: not reproduced: {describe(tr)}")
            elif r != "unsat":
                chk.inconc(f"fault BMC N={N} T={T} {key}: solver {r}")
        # a request made after a failed build takes the build branch (does not wait): p0 fails completely before p1 starts
        fl = z3.Or(*[M.pc[K][0] == l for l in fail_leaf])
        nokill = z3.And(*[z3.Not(k) for k in M.kill])
        # p1 ends in TimeoutError although p0 failed before p1's first step
        timeout_leaf = M.leaf_ids(lambda lf: lf[0] == ("raise", "TimeoutError"))
        order = []
        for t in range(K):
            # if p1 moves at step t (leaves node 0), p0 must already be at a failing leaf
            order.append(z3.Implies(z3.And(M.sched[t] == 1, M.pc[t][1] == 0), z3.Or(*[M.pc[t][0] == l for l in fail_leaf])))
        # the other processes (if any) stay out of it: a legitimate build in progress by a third
        # request would make waiting (and a TimeoutError within the poll bound) correct behaviour
        others_idle = z3.And(*[M.pc[K][p] == 0 for p in range(2, N)]) if N > 2 else z3.BoolVal(True)
        bad = z3.And(fl, nokill, others_idle, z3.And(*order), z3.Or(*[M.pc[K][1] == l for l in timeout_leaf]))
        r, tr, dt = M.query(bad)
        chk.q("BMC", r, dt)
        if r == "sat":
            obs, results, glob = jitbmc.replay_trace(tr, N, T)
            chk.extra["traces_validated_against_impl"] = chk.extra.get("traces_validated_against_impl", 0) + 1
            if any(v == ("raise", "TimeoutError") for v in results.values()):
                chk.violation(f"jit:waits-after-failure:N={N}", f"a request made after a failed build waits and times out instead of building afresh: {describe(tr)}", replay_src("C15", N, T, tr, "bad-leaf"))
            else:
                chk.inconc(f"fault BMC N={N} T={T} waits-after-failure: not reproduced")
        elif r != "unsat":
            chk.inconc(f"fault BMC N={N} T={T} waits-after-failure: solver {r}")
    chk.extra["tree_nodes"] = tree.size()


def replay_handlers(quiet=False):
    """Real cffi build with a compiler flag gcc rejects: are root logger handlers / stdout restored?"""
    import logging
    import sys
    import tempfile

    import ffcx.codegeneration.jit as jit

    root = logging.getLogger()
    h0 = list(root.handlers)
    so = sys.stdout
    err = None
    with tempfile.TemporaryDirectory(dir="/verif/.work") as d:
        try:
            jit.compile_forms([jitbmc._form()], cache_dir=d, cffi_extra_compile_args=["-fthis-flag-does-not-exist"])
        except Exception as e:
            err = type(e).__name__
    bad = list(root.handlers) != h0 or sys.stdout is not so
    after = list(root.handlers)
    root.handlers[:] = h0
    sys.stdout = so
    if not quiet:
        print("build raised:", err, "| root handlers before:", h0, "after:", after)
        print("REPRODUCED" if bad else "not reproduced")
        return 1 if bad else 0
    return bad


def replay_real_objects(quiet=False):
    """Real cffi builds in a scratch cache: a request for several forms (k * P1 mass), first served by
    the build branch and then by the cache-hit branch, must return objects whose kernels compute
    k_i * mass in request order."""
    import tempfile

    import numpy as np

    import ffcx.codegeneration.jit as jit

    fs = jitbmc._forms()
    bad = []
    with tempfile.TemporaryDirectory(dir="/verif/.work") as d:
        for rnd in ("build", "cache-hit"):
            objs, mod, _ = jit.compile_forms([f for _, f in fs], cache_dir=d)
            ffi = mod.ffi
            for i, ((k, _), o) in enumerate(zip(fs, objs)):
                integral = o.form_integrals[0]
                A = np.zeros(9)
                w = np.zeros(1)
                c = np.zeros(1)
                x = np.array([0.0, 0, 0, 1, 0, 0, 0, 1, 0])
                integral.tabulate_tensor_float64(ffi.cast("double*", A.ctypes.data), ffi.cast("double*", w.ctypes.data), ffi.cast("double*", c.ctypes.data),
                                                 ffi.cast("double*", x.ctypes.data), ffi.NULL, ffi.NULL, ffi.NULL)
                if abs(A[0] - k / 12.0) > 1e-12:
                    bad.append(f"{rnd}: object {i} of the request should compute {k}*mass (A[0]={k / 12.0:.6f}) but computes A[0]={A[0]:.6f}")
    if not quiet:
        print("\n".join(bad) or "every request returned its objects in request order")
        print("REPRODUCED" if bad else "not reproduced")
        return 1 if bad else 0
    return bool(bad)
