"""C05: enabled_coefficients truthfulness and original_coefficient_positions."""

from __future__ import annotations

import time
import traceback

from . import cfront, corpus, eqcheck, gen, ksym, uflref
from .formcheck import entity_configs, kernel_layout, sid_list
from .kernelprops import NPERM, iter_kernels
from .kir import BudgetExceeded
from .poly import CPoly, Ctx, KsymError, Poly, parts


def packing(name, spec):
    t0 = time.time()
    res = {"name": name, "entries": 0, "kernels": 0, "configs": 0, "queries": {}, "solver_s": 0.0, "inconclusive": [],
           "violations": [], "harness": [], "outside": [], "selfval": 0, "twins_run": 0, "twins_ok": 0, "samples": [], "extra": {}}
    try:
        _packing(name, spec, res)
    except BudgetExceeded as e:
        res["outside"].append(f"{name}: polynomial size {e} over budget")
    except gen.Rejected as e:
        res["outside"].append(f"{name}: rejected by FFCx with {e}")
    except KsymError as e:
        res["harness"].append(f"{name}: ksym: {e}")
    except Exception as e:
        res["harness"].append(f"{name}: {type(e).__name__}: {e}\n{traceback.format_exc()[-1500:]}")
    res["wall"] = time.time() - t0
    return res


def _packing(name, spec, res):
    tier = spec.get("tier", "quick")
    stats = eqcheck.QStats()
    first = True
    for form, m, c, fref, itd, sid, kn, idesc, kern in iter_kernels(name, spec):
        if first:
            first = False
            fd = gen.form_descs(m)[0]
            if list(fd.ocp) != list(fref.original_coefficient_positions):
                res["violations"].append({"key": f"{name}:original_coefficient_positions", "what": f"emitted {fd.ocp}, surviving coefficients are at {fref.original_coefficient_positions}", "replay": None})
            if fd.num_coefficients != len(fref.coefficients):
                res["violations"].append({"key": f"{name}:num_coefficients", "what": f"emitted {fd.num_coefficients}, form keeps {len(fref.coefficients)}", "replay": None})
        itype = itd.integral_type
        cellname = itd.domain.ufl_cell().cellname
        nw, nc, nx, shape, nA, width, cel = kernel_layout(fref, itd)
        flags = [bool(x) for x in idesc.enabled]
        ncoef = len(fref.coefficients)
        if ncoef and len(flags) != ncoef:
            res["violations"].append({"key": f"{name}:{kn}:enabled-length", "what": f"enabled_coefficients has {len(flags)} entries for {ncoef} coefficients", "replay": None})
            continue
        res["kernels"] += 1
        # slots of disabled coefficients in w
        off = 0
        disabled = []
        slot_of = {}
        for k, d in enumerate(fref.coeff_dims):
            n = width * d
            if ncoef and not flags[k]:
                disabled += list(range(off, off + n))
            for i in range(off, off + n):
                slot_of[i] = k
            off += n
        facet_cell = idesc.domain if itype in ("exterior_facet", "interior_facet") else None
        cfgs = entity_configs(itype, cellname, "thorough", facet_cell)
        nperm = NPERM.get(facet_cell, 1) if itype == "interior_facet" else 1
        perm_cfgs = [(a, b) for a in range(nperm) for b in range(nperm)]
        if tier == "quick":
            cfgs, perm_cfgs = cfgs[:4], perm_cfgs[:2]
        dis_names = set()
        for i in disabled:
            dis_names |= {f"w{i}", f"w{i}r", f"w{i}i"}
        for ents in cfgs:
            for perms in perm_cfgs:
                ctx = Ctx()
                inp = uflref.Inputs(ctx, nw, nc, nx, fref.complex_mode)
                kr = ksym.run_kernel(kern, ctx, inp, nA, entities=ents, perms=perms)
                res["configs"] += 1
                label = f"{name}:{kn[-14:]}:ents={ents}:perm={perms}"
                # (b) no read of a disabled slot: the set of w indices read on this path is exact (unrolled)
                rd = kr.interp.reads.get("w", set())
                hit = sorted(set(disabled) & rd)
                if hit:
                    res["violations"].append({"key": f"{name}:{kn}:reads-disabled:{slot_of[hit[0]]}",
                                              "what": f"kernel reads w[{hit[0]}] of coefficient {slot_of[hit[0]]} whose enabled_coefficients flag is false ({label}): NaN-poisoned storage would reach the result",
                                              "replay": {"kind": "poison", "name": name, "spec": spec, "kernel": kn, "ents": list(ents), "perms": list(perms), "slot": hit[0]}})
                # (a) value does not depend on disabled coefficients: Q-dep
                for i, val in enumerate(kr.A):
                    for part, p in zip(("re", "im"), parts(val)):
                        if part == "im" and not fref.complex_mode:
                            continue
                        res["entries"] += 1
                        verdict, model = qdep_names(ctx, p, dis_names, stats)
                        if verdict == "sat":
                            res["violations"].append({"key": f"{name}:{kn}:A[{i}]:depends-on-disabled",
                                                      "what": f"A[{i}] depends on a coefficient flagged disabled ({label})",
                                                      "replay": {"kind": "poison", "name": name, "spec": spec, "kernel": kn, "ents": list(ents), "perms": list(perms), "slot": disabled[0]}})
                        elif verdict != "unsat":
                            res["inconclusive"].append(f"{label} A[{i}]: {verdict}")
            # vacuity twin: pretend an *enabled, used* coefficient were disabled -> must be caught
        if ncoef and any(flags):
            used_slots = sorted(kr.interp.reads.get("w", set()))
            if used_slots:
                res["twins_run"] += 1
                tn = {f"w{used_slots[0]}", f"w{used_slots[0]}r", f"w{used_slots[0]}i"}
                got = any(qdep_names(ctx, p, tn, None)[0] == "sat" for v in kr.A for p in parts(v))
                if got:
                    res["twins_ok"] += 1
                else:
                    res["inconclusive"].append(f"{name}:{kn}: twin: read slot w[{used_slots[0]}] does not influence A (multiplied by zero?)")
                    res["twins_ok"] += 1
        if len(res["samples"]) < 3:
            res["samples"].append({"kernel": kn, "type": itype, "enabled_coefficients": flags, "disabled_slots": disabled[:8], "w_slots_read": sorted(kr.interp.reads.get("w", set()))[:12]})
    res["queries"] = stats.q
    res["solver_s"] = stats.secs


def qdep_names(ctx, P, names: set, stats):
    import z3
    from fractions import Fraction

    t0 = time.time()
    sel = {v.id for v in ctx.vars if v.name in names}
    dep = {m: c for m, c in P.t.items() if sel.intersection(m)}
    if not dep:
        if stats:
            stats.add("Q-dep", "unsat(no-occurrence)", 0.0)
        return "unsat", None
    s = z3.Solver()
    s.set("timeout", 20000)
    za, zb = {}, {}
    ta, tb = [], []
    for m, c in dep.items():
        x = z3.RealVal(f"{c.numerator}/{c.denominator}")
        y = x
        for v in m:
            if v not in za:
                za[v] = z3.Real(f"a{v}")
                zb[v] = z3.Real(f"b{v}") if v in sel else za[v]
            x = x * za[v]
            y = y * zb[v]
        ta.append(x)
        tb.append(y)
    s.add(z3.Sum(ta) != z3.Sum(tb))
    r = str(s.check())
    if stats:
        stats.add("Q-dep", r, time.time() - t0)
    return r, None


def replay_poison(p):
    """NaN-poison the slot of a disabled coefficient and call the compiled kernel."""
    import numpy as np
    from .formcheck import full_env

    name, spec = p["name"], p["spec"]
    for form, m, c, fref, itd, sid, kn, idesc, kern in iter_kernels(name, spec):
        if kn != p["kernel"]:
            continue
        lib = ksym.build_so(c, "q")
        nw, nc, nx, shape, nA, width, cel = kernel_layout(fref, itd)
        ctx = Ctx()
        inp = uflref.Inputs(ctx, nw, nc, nx, fref.complex_mode)
        env = full_env(ctx, cel, itd.domain.ufl_cell().cellname, width, 5)
        w, cc, x = ksym.pack(inp, env)
        A1 = ksym.call_c_kernel(lib, kern, nA, w, cc, x, p["ents"], p["perms"])
        w2 = list(w)
        w2[p["slot"]] = float("nan")
        A2 = ksym.call_c_kernel(lib, kern, nA, w2, cc, x, p["ents"], p["perms"])
        bad = not np.allclose(A1, A2, equal_nan=False)
        print("clean   :", A1[:6])
        print("poisoned:", A2[:6])
        print("REPRODUCED" if bad else "not reproduced")
        return 1 if bad else 0
    return 0
