"""Independent oracle: evaluates a UFL form / expression in the same exact value
domain as the kernel executor, from the *statement* of the UFCx contract.

Nothing under ffcx/ is imported here.  Trusted base: UFL (lowering), basix
(element tabulation, quadrature, reference geometry), numpy.
"""

from __future__ import annotations

import itertools

import basix
import basix.ufl
import numpy as np
import ufl
import ufl.algorithms
import ufl.classes as uc

from .poly import CPoly, Ctx, KsymError, Poly, parts

SNAP = 1e-14  # oracle tables: |v| < SNAP -> 0, |v -+ 1| < SNAP -> +-1 (far below table_atol)


class OracleUnsupported(Exception):
    pass


def snap(v: float) -> float:
    if abs(v) < SNAP:
        return 0.0
    if abs(v - 1.0) < SNAP:
        return 1.0
    if abs(v + 1.0) < SNAP:
        return -1.0
    return float(v)


# ---------------------------------------------------------------------------
# element tabulation, written from the basix element definitions


def ref_value_size(el) -> int:
    n = 1
    for s in el.reference_value_shape:
        n *= s
    return n


def tabulate_component(el, comp: int, nderivs: int, pts: np.ndarray) -> np.ndarray:
    """Return array [deriv_index][point][dof] of reference component `comp` of every
    basis function of `el` (zero for dofs not contributing to that component)."""
    cname = type(el).__name__
    npts = len(pts)
    tdim = pts.shape[1] if pts.ndim == 2 else 0
    if cname == "_BasixElement":
        t = el.basix_element.tabulate(nderivs, pts)  # [d][p][dof][vs]
        return np.asarray(t[:, :, :, comp])
    if cname == "_BlockedElement":
        sub = el._sub_element
        bs = el.block_size
        ts = tabulate_component(sub, 0, nderivs, pts)
        out = np.zeros((ts.shape[0], npts, sub.dim * bs))
        out[:, :, comp::bs] = ts
        return out
    if cname == "_MixedElement":
        doff = 0
        coff = 0
        nd = None
        res = None
        for sub in el._sub_elements:
            rs = ref_value_size(sub)
            if coff <= comp < coff + rs:
                ts = tabulate_component(sub, comp - coff, nderivs, pts)
                res = (doff, ts)
            doff += sub.dim
            coff += rs
        if res is None:
            raise OracleUnsupported("component outside mixed element")
        out = np.zeros((res[1].shape[0], npts, doff))
        out[:, :, res[0] : res[0] + res[1].shape[2]] = res[1]
        return out
    if cname == "_RealElement":
        nidx = basix.index(*([0] * (tdim - 1) + [nderivs])) + 1 if tdim > 0 else 1
        out = np.zeros((max(nidx, 1), npts, 1))
        out[0, :, 0] = 1.0
        return out
    if cname == "_QuadratureElement":
        if nderivs > 0:
            raise OracleUnsupported("derivative of quadrature element")
        qp = el._points
        if qp.shape != pts.shape or not np.allclose(qp, pts):
            raise OracleUnsupported("quadrature element evaluated away from its points")
        return np.eye(npts)[None, :, :]
    raise OracleUnsupported(f"element class {cname}")


def cell_geometry(cellname):
    return np.asarray(basix.geometry(basix.CellType[cellname]), dtype=float)


def cell_topology(cellname):
    return basix.topology(basix.CellType[cellname])


def entity_points(cellname: str, entity_dim: int, entity: int, pts: np.ndarray) -> np.ndarray:
    """Map points of the reference sub-entity into the reference cell:
    X = v0 + sum_k (v_{k+1} - v0) p_k with v the entity's vertices in basix order."""
    geom = cell_geometry(cellname)
    tdim = geom.shape[1]
    if entity_dim == tdim:
        return np.asarray(pts, dtype=float)
    verts = [geom[i] for i in cell_topology(cellname)[entity_dim][entity]]
    if entity_dim == 0:
        return np.asarray([verts[0]], dtype=float)
    out = []
    for p in pts:
        x = verts[0].copy()
        for k in range(entity_dim):
            x = x + (verts[k + 1] - verts[0]) * p[k]
        out.append(x)
    return np.asarray(out, dtype=float)


def facet_cellname(cellname: str, facet: int) -> str:
    ct = basix.CellType[cellname]
    tdim = len(basix.topology(ct)) - 1
    return basix.cell.subentity_types(ct)[tdim - 1][facet].name


# ---------------------------------------------------------------------------
# argument-indexed values


class AV:
    """Value multilinear in the form arguments: {((argnum, dof), ...): value}."""

    __slots__ = ("d",)

    def __init__(self, d):
        self.d = d

    @staticmethod
    def scalar(v):
        return AV({(): v})

    def is_scalar(self):
        return all(k == () for k in self.d)

    def sval(self):
        if not self.d:
            return None
        if not self.is_scalar():
            raise OracleUnsupported("non-linear operation on a form argument")
        return self.d[()]


def _iszero(v):
    return v.is_zero()


def av_add(a: AV, b: AV) -> AV:
    if not a.d:
        return b
    if not b.d:
        return a
    r = dict(a.d)
    for k, v in b.d.items():
        if k in r:
            s = r[k] + v
            if _iszero(s):
                del r[k]
            else:
                r[k] = s
        else:
            r[k] = v
    return AV(r)


def av_neg(a: AV) -> AV:
    return AV({k: -v for k, v in a.d.items()})


def av_mul(a: AV, b: AV) -> AV:
    if not a.d or not b.d:
        return AV({})
    r = {}
    for ka, va in a.d.items():
        for kb, vb in b.d.items():
            if ka and kb:
                k = tuple(sorted(ka + kb))
                if len({x[0] for x in k}) != len(k):
                    raise OracleUnsupported("argument appears twice in a product")
            else:
                k = ka or kb
            v = va * vb
            if _iszero(v):
                continue
            if k in r:
                s = r[k] + v
                if _iszero(s):
                    del r[k]
                else:
                    r[k] = s
            else:
                r[k] = v
    return AV(r)


def av_map(a: AV, f) -> AV:
    r = {}
    for k, v in a.d.items():
        w = f(v)
        if not _iszero(w):
            r[k] = w
    return AV(r)


# ---------------------------------------------------------------------------


class Inputs:
    """Symbolic kernel inputs shared by kernel executor and oracle."""

    def __init__(self, ctx: Ctx, nw: int, nc: int, nx: int, complex_mode: bool, real_data: bool = False):
        self.ctx = ctx
        self.complex_mode = complex_mode
        self.nw, self.nc, self.nx = nw, nc, nx
        if complex_mode and not real_data:
            self.W = [CPoly(ctx.inp(f"w{i}r"), ctx.inp(f"w{i}i")) for i in range(nw)]
            self.C = [CPoly(ctx.inp(f"c{i}r"), ctx.inp(f"c{i}i")) for i in range(nc)]
        elif complex_mode:
            z = ctx.const(0)
            self.W = [CPoly(ctx.inp(f"w{i}"), z) for i in range(nw)]
            self.C = [CPoly(ctx.inp(f"c{i}"), z) for i in range(nc)]
        else:
            self.W = [ctx.inp(f"w{i}") for i in range(nw)]
            self.C = [ctx.inp(f"c{i}") for i in range(nc)]
        self.X = [ctx.inp(f"x{i}") for i in range(nx)]


LOWER_KW = dict(
    do_apply_function_pullbacks=True,
    do_apply_integral_scaling=True,
    do_apply_geometry_lowering=True,
    preserve_geometry_types=(uc.Jacobian,),
    do_apply_restrictions=True,
    do_append_everywhere_integrals=False,
)


class FormRef:
    """UFL-side view of a form: lowered integrals, packing layout by the contract."""

    def __init__(self, form: ufl.Form, scalar_type: str = "float64"):
        self.form = form
        self.complex_mode = scalar_type.startswith("complex")
        self.fd = ufl.algorithms.compute_form_data(form, complex_mode=self.complex_mode, **LOWER_KW)
        fd = self.fd
        self.rank = fd.rank
        self.arg_elements = list(fd.argument_elements)
        self.arg_dims = [e.dim for e in self.arg_elements]
        self.coefficients = list(fd.reduced_coefficients)
        self.coeff_elements = list(fd.coefficient_elements)
        self.coeff_dims = [e.dim for e in self.coeff_elements]
        self.constants = list(fd.original_form.constants())
        self.const_sizes = [int(np.prod(c.ufl_shape, dtype=int)) for c in self.constants]
        self.original_coefficient_positions = list(fd.original_coefficient_positions)

    def sizes(self, itype: str, domain=None):
        width = 2 if itype == "interior_facet" else 1
        nw = width * sum(self.coeff_dims)
        nc = sum(self.const_sizes)
        shape = [width * d for d in self.arg_dims]
        return nw, nc, shape

    def coord_element(self, itg_data):
        return itg_data.domain.ufl_coordinate_element()


def quadrature_for(integral, itype: str, cellname: str, arg_elements, entity_cellname: str | None = None):
    """Points/weights on the reference integration entity, per the integral's metadata."""
    md = integral.metadata() or {}
    elements = ufl.algorithms.extract_elements(integral)
    custom = None
    for e in elements:
        if getattr(e, "has_custom_quadrature", False):
            custom = e.custom_quadrature()
    if custom is not None:
        return np.asarray(custom[0], dtype=float), np.asarray(custom[1], dtype=float)
    scheme = md.get("quadrature_rule", "default")
    deg = md.get("quadrature_degree", -1)
    if deg is None or (isinstance(deg, int) and deg < 0) or deg == "auto":
        deg = int(np.max(md["estimated_polynomial_degree"]))
    if itype == "cell":
        ecell = cellname
    elif itype in ("exterior_facet", "interior_facet"):
        ecell = entity_cellname
    elif itype == "vertex":
        return np.ones((1, 0)), np.ones(1)
    else:
        raise OracleUnsupported(f"integral type {itype}")
    if scheme == "vertex":
        ct = basix.CellType[ecell]
        g = np.asarray(basix.geometry(ct), dtype=float)
        vol = basix.cell.volume(ct)
        return g, np.full(len(g), vol / len(g))
    if ecell == "point":
        return np.ones((1, 0)), np.ones(1)
    ct = basix.CellType[ecell]
    ps = basix.PolysetType.standard
    for e in arg_elements:
        ps = basix.polyset_superset(ct, ps, e.polyset_type)
    p, w = basix.make_quadrature(ct, int(deg), rule=basix.quadrature.string_to_type(scheme), polyset_type=ps)
    return np.asarray(p, dtype=float), np.asarray(w, dtype=float)


_MATH = {
    "Sqrt": "sqrt", "Exp": "exp", "Ln": "ln", "Cos": "cos", "Sin": "sin", "Tan": "tan", "Cosh": "cosh",
    "Sinh": "sinh", "Tanh": "tanh", "Acos": "acos", "Asin": "asin", "Atan": "atan", "Erf": "erf",
}


class Evaluator:
    """Evaluates lowered UFL expressions at quadrature points of one entity configuration."""

    def __init__(self, ctx: Ctx, inputs: Inputs, *, itype: str, cellname: str, coord_element,
                 arg_elements, coefficients, coeff_elements, constants, entities=(0, 0),
                 complex_mode=False, arg_offsets=None, arg_domains=None):
        self.ctx = ctx
        self.inp = inputs
        self.itype = itype
        self.cellname = cellname
        self.cel = coord_element
        self.gdim = coord_element.reference_value_shape[0]
        self.nnodes = coord_element.dim // self.gdim
        self.tdim = cell_geometry(cellname).shape[1]
        self.arg_elements = arg_elements
        self.coefficients = coefficients
        self.coeff_elements = coeff_elements
        self.constants = constants
        self.entities = entities
        self.complex_mode = complex_mode
        self.width = 2 if itype == "interior_facet" else 1
        self.coeff_off = {}
        off = 0
        for c, e in zip(coefficients, coeff_elements):
            self.coeff_off[c] = off
            off += self.width * e.dim
        self.const_off = {}
        off = 0
        for c in constants:
            self.const_off[c] = off
            off += int(np.prod(c.ufl_shape, dtype=int))
        self.entity_dim = {"cell": self.tdim, "exterior_facet": self.tdim - 1, "interior_facet": self.tdim - 1,
                           "vertex": 0, "expression": self.tdim}[itype]
        self.tabcache = {}
        self.zero = ctx.const(0)
        self.one = ctx.const(1)

    # ---- points
    def set_points(self, ent_pts: np.ndarray, weights, entity_dim=None):
        """ent_pts on the reference integration entity."""
        if entity_dim is not None:
            self.entity_dim = entity_dim
        self.ent_pts = np.asarray(ent_pts, dtype=float)
        self.weights = weights
        self.nq = len(ent_pts) if self.entity_dim > 0 or len(ent_pts) else 1
        self.cellpts = {}
        for r in range(self.width):
            self.cellpts[r] = entity_points(self.cellname, self.entity_dim, self.entities[r], self.ent_pts) \
                if self.entity_dim < self.tdim else self.ent_pts
        self.tabcache = {}

    def _tab(self, el, comp, derivs, r):
        """[q][dof] values of d^derivs (component comp of each basis fn) at the cell points of side r."""
        key = (id(el), comp, derivs, r)
        t = self.tabcache.get(key)
        if t is None:
            cnt = tuple(derivs.count(k) for k in range(self.tdim))
            full = tabulate_component(el, comp, len(derivs), self.cellpts[r])
            di = basix.index(*cnt) if self.tdim > 0 and len(derivs) > 0 else 0
            t = np.asarray(full[di], dtype=float)
            self.tabcache[key] = t
        return t

    # ---- terminals
    def _restr_index(self, restr):
        if self.width == 1:
            return 0
        return 1 if restr == "-" else 0

    def _lin(self, coefs, values):
        tot = None
        for cf, v in zip(coefs, values):
            cf = snap(cf)
            if cf == 0.0:
                continue
            t = v * cf
            tot = t if tot is None else tot + t
        return self.zero if tot is None else tot

    def coordinate_value(self, i, derivs, r, q):
        sub = self.cel._sub_element if hasattr(self.cel, "_sub_element") else self.cel.sub_elements[0]
        tb = self._tab(sub, 0, tuple(derivs), r)[q]
        base = r * 3 * self.nnodes
        return self._lin(tb, [self.inp.X[base + 3 * k + i] for k in range(self.nnodes)])

    def terminal(self, t, comp, derivs, restr, q) -> AV:
        r = self._restr_index(restr)
        ctx = self.ctx
        if isinstance(t, uc.QuadratureWeight):
            return AV.scalar(ctx.const(float(self.weights[q])))
        if isinstance(t, uc.Constant):
            fl = 0
            for n, cc in zip(t.ufl_shape, comp):
                fl = fl * n + cc
            if derivs:
                return AV({})
            return AV.scalar(self.inp.C[self.const_off[t] + fl])
        if isinstance(t, uc.Jacobian):
            return AV.scalar(self.coordinate_value(comp[0], (comp[1],) + tuple(derivs), r, q))
        if isinstance(t, uc.SpatialCoordinate):
            return AV.scalar(self.coordinate_value(comp[0], tuple(derivs), r, q))
        if isinstance(t, uc.CellCoordinate):
            if derivs:
                raise OracleUnsupported("derivative of CellCoordinate")
            return AV.scalar(ctx.const(snap(self.cellpts[r][q][comp[0]])))
        if isinstance(t, uc.FacetCoordinate):
            return AV.scalar(ctx.const(snap(self.ent_pts[q][comp[0]])))
        if isinstance(t, uc.FormArgument):
            el = t.ufl_function_space().ufl_element()
            fl = 0
            for n, cc in zip(el.reference_value_shape, comp):
                fl = fl * n + cc
            tb = self._tab(el, fl, tuple(derivs), r)[q]
            nd = el.dim
            if isinstance(t, uc.Argument):
                num = t.number()
                d = {}
                for k in range(nd):
                    v = snap(tb[k])
                    if v != 0.0:
                        d[((num, r * nd + k),)] = ctx.const(v)
                return AV(d)
            off = self.coeff_off[t] + r * nd
            return AV.scalar(self._lin(tb, [self.inp.W[off + k] for k in range(nd)]))
        return AV.scalar(self.geometry_terminal(t, comp, derivs, r, q))

    def geometry_terminal(self, t, comp, derivs, r, q):
        ctx = self.ctx
        ct = basix.CellType[self.cellname]
        name = type(t).__name__
        if derivs:
            return self.zero  # piecewise constant reference quantities
        ent = self.entities[r]
        if name == "ReferenceCellVolume":
            return ctx.const(snap(basix.cell.volume(ct)))
        if name == "ReferenceFacetVolume":
            return ctx.const(snap(basix.cell.facet_reference_volumes(ct)[ent]))
        if name == "ReferenceNormal":
            return ctx.const(snap(basix.cell.facet_outward_normals(ct)[ent][comp[0]]))
        if name == "CellFacetJacobian":
            return ctx.const(snap(basix.cell.facet_jacobians(ct)[ent][comp[0]][comp[1]]))
        if name == "CellOrientation":
            # the UFCx kernel signature carries no orientation input: the contract fixes +1
            return self.one
        if name == "FacetOrientation":
            return ctx.const(-1.0 if basix.cell.facet_orientations(ct)[ent] else 1.0)
        geom = cell_geometry(self.cellname)
        topo = cell_topology(self.cellname)
        if name == "CellVertices":
            return self._vertex_coord(comp[0], comp[1], r)
        if name == "CellEdgeVectors":
            v0, v1 = topo[1][comp[0]]
            return self._vertex_coord(v1, comp[1], r) - self._vertex_coord(v0, comp[1], r)
        if name == "ReferenceCellEdgeVectors":
            v0, v1 = topo[1][comp[0]]
            return ctx.const(snap(geom[v1][comp[1]] - geom[v0][comp[1]]))
        if name in ("FacetEdgeVectors", "ReferenceFacetEdgeVectors"):
            fverts = topo[self.tdim - 1][ent]
            edges = [e for e in topo[1] if e[0] in fverts and e[1] in fverts]
            v0, v1 = edges[comp[0]]
            if name == "ReferenceFacetEdgeVectors":
                return ctx.const(snap(geom[v1][comp[1]] - geom[v0][comp[1]]))
            return self._vertex_coord(v1, comp[1], r) - self._vertex_coord(v0, comp[1], r)
        raise OracleUnsupported(f"geometry terminal {name}")

    def _vertex_coord(self, v, i, r):
        """Physical coordinate i of reference vertex v: coordinate field at that vertex."""
        sub = self.cel._sub_element if hasattr(self.cel, "_sub_element") else self.cel.sub_elements[0]
        g = cell_geometry(self.cellname)[v : v + 1]
        tb = tabulate_component(sub, 0, 0, g)[0][0]
        base = r * 3 * self.nnodes
        return self._lin(tb, [self.inp.X[base + 3 * k + i] for k in range(self.nnodes)])

    # ---- expression evaluation at one point
    def evaluate(self, expr, q, comp=()) -> AV:
        self.q = q
        self.memo = {}
        return self.ev(expr, {}, tuple(comp))

    def ev(self, e, ib, comp) -> AV:
        fi = e.ufl_free_indices
        key = (id(e), tuple(ib[i] for i in fi) if fi else (), comp)
        r = self.memo.get(key)
        if r is None:
            r = self._ev(e, ib, comp)
            self.memo[key] = r
        return r

    def _scal(self, e, ib) -> "Poly|CPoly":
        v = self.ev(e, ib, ()).sval()
        return self.zero if v is None else v

    def _ev(self, e, ib, comp) -> AV:
        ctx = self.ctx
        if isinstance(e, uc.Zero):
            return AV({})
        if isinstance(e, (uc.IntValue, uc.FloatValue, uc.RealValue)) and not isinstance(e, uc.ComplexValue):
            return AV.scalar(ctx.const(float(e)))
        if isinstance(e, uc.ComplexValue):
            z = complex(e)
            return AV.scalar(CPoly(ctx.const(z.real), ctx.const(z.imag)))
        if isinstance(e, uc.ScalarValue):
            return AV.scalar(ctx.const(float(e._value)))
        if isinstance(e, uc.Identity):
            return AV.scalar(self.one) if comp[0] == comp[1] else AV({})
        if isinstance(e, uc.Sum):
            a, b = e.ufl_operands
            return av_add(self.ev(a, ib, comp), self.ev(b, ib, comp))
        if isinstance(e, uc.Product):
            a, b = e.ufl_operands
            return av_mul(self.ev(a, ib, ()), self.ev(b, ib, ()))
        if isinstance(e, uc.Division):
            a, b = e.ufl_operands
            den = self._scal(b, ib)
            return av_map(self.ev(a, ib, ()), lambda v: v / den)
        if isinstance(e, uc.Indexed):
            A, mi = e.ufl_operands
            c = tuple(int(i) if isinstance(i, uc.FixedIndex) else ib[i.count()] for i in mi)
            return self.ev(A, ib, c + comp)
        if isinstance(e, uc.IndexSum):
            s, mi = e.ufl_operands
            idx = mi[0].count()
            tot = AV({})
            for k in range(e.dimension()):
                ib2 = dict(ib)
                ib2[idx] = k
                tot = av_add(tot, self.ev(s, ib2, comp))
            return tot
        if isinstance(e, uc.ComponentTensor):
            s, mi = e.ufl_operands
            n = len(mi)
            ib2 = dict(ib)
            for i, cv in zip(mi, comp[:n]):
                ib2[i.count()] = cv
            return self.ev(s, ib2, comp[n:])
        if isinstance(e, uc.ListTensor):
            return self.ev(e.ufl_operands[comp[0]], ib, comp[1:])
        if isinstance(e, uc.Variable):
            return self.ev(e.ufl_operands[0], ib, comp)
        if isinstance(e, uc.Conj):
            return av_map(self.ev(e.ufl_operands[0], ib, comp), lambda v: v.conj() if isinstance(v, CPoly) else v)
        if isinstance(e, uc.Real):
            return av_map(self.ev(e.ufl_operands[0], ib, comp), lambda v: v.re if isinstance(v, CPoly) else v)
        if isinstance(e, uc.Imag):
            return av_map(self.ev(e.ufl_operands[0], ib, comp), lambda v: v.im if isinstance(v, CPoly) else self.zero)
        if isinstance(e, uc.Abs):
            v = self._scal(e.ufl_operands[0], ib)
            return AV.scalar(apply_math(ctx, "abs", [v], self.complex_mode))
        if isinstance(e, uc.Power):
            a, b = e.ufl_operands
            bv = self._scal(b, ib)
            av = self.ev(a, ib, ())
            br, bi = parts(bv)
            if bi.is_zero() and br.is_const() and br.const_value().denominator == 1 and 0 <= br.const_value() <= 6 and not av.is_scalar():
                n = int(br.const_value())
                out = AV.scalar(self.one)
                for _ in range(n):
                    out = av_mul(out, av)
                return out
            base = av.sval()
            base = self.zero if base is None else base
            return AV.scalar(apply_math(ctx, "pow", [base, bv], self._is_cplx(base, bv)))
        nm = type(e).__name__
        if nm in _MATH:
            v = self._scal(e.ufl_operands[0], ib)
            return AV.scalar(apply_math(ctx, _MATH[nm], [v], self._is_cplx(v)))
        if nm == "Atan2":
            a, b = (self._scal(x, ib) for x in e.ufl_operands)
            return AV.scalar(apply_math(ctx, "atan2", [a, b], False))
        if nm in ("BesselJ", "BesselY", "BesselI", "BesselK"):
            n, x = (self._scal(o, ib) for o in e.ufl_operands)
            return AV.scalar(apply_math(ctx, "bessel_" + nm[-1].lower(), [n, x], False))
        if nm in ("MinValue", "MaxValue"):
            a, b = (self._scal(x, ib) for x in e.ufl_operands)
            return AV.scalar(apply_math(ctx, "min" if nm == "MinValue" else "max", [a, b], False))
        if isinstance(e, uc.Conditional):
            c, t, f = e.ufl_operands
            b = self.cond(c, ib)
            tv, fv = self.ev(t, ib, comp), self.ev(f, ib, comp)
            if b.is_const():
                return tv if b.const_value() != 0 else fv
            nb = self.one - b
            return av_add(av_map(tv, lambda v: v * b), av_map(fv, lambda v: v * nb))
        # modified terminals
        t = e
        nd = 0
        restr = None
        while not t._ufl_is_terminal_:
            if isinstance(t, uc.ReferenceValue):
                pass
            elif isinstance(t, uc.ReferenceGrad):
                nd += 1
            elif isinstance(t, uc.Restricted):
                restr = t._side
            else:
                raise OracleUnsupported(f"UFL node {type(t).__name__}")
            t = t.ufl_operands[0]
        derivs = comp[len(comp) - nd :] if nd else ()
        base = comp[: len(comp) - nd] if nd else comp
        return self.terminal(t, base, derivs, restr, self.q)

    def _is_cplx(self, *vs):
        return self.complex_mode and any(isinstance(v, CPoly) and not v.im.is_zero() for v in vs) or (
            self.complex_mode and any(isinstance(v, CPoly) for v in vs))

    def cond(self, c, ib) -> Poly:
        ctx = self.ctx
        nm = type(c).__name__
        if nm in ("LT", "GT", "LE", "GE", "EQ", "NE"):
            a, b = (self._scal(x, ib) for x in c.ufl_operands)
            if isinstance(a, CPoly) or isinstance(b, CPoly):
                ar, ai = parts(a)
                br, bi = parts(b)
                if nm in ("EQ", "NE"):
                    eq = ctx.cmp("eq", ar - br) * ctx.cmp("eq", ai - bi)
                    return eq if nm == "EQ" else self.one - eq
                a, b = ar, br  # UFL: ordered comparisons act on real parts
            return ctx.cmp(nm.lower(), a - b)
        if nm == "AndCondition":
            a, b = (self.cond(x, ib) for x in c.ufl_operands)
            return a * b
        if nm == "OrCondition":
            a, b = (self.cond(x, ib) for x in c.ufl_operands)
            return a + b - a * b
        if nm == "NotCondition":
            return self.one - self.cond(c.ufl_operands[0], ib)
        raise OracleUnsupported(f"condition {nm}")


def apply_math(ctx: Ctx, g: str, args, complex_variant: bool):
    """Value-domain math (shared semantics with the kernel executor's call())."""
    from .kir import Interp

    it = Interp(ctx, "c", complex_variant)
    cname = {
        "sqrt": "sqrt", "abs": "fabs", "cos": "cos", "sin": "sin", "tan": "tan", "acos": "acos", "asin": "asin",
        "atan": "atan", "cosh": "cosh", "sinh": "sinh", "tanh": "tanh", "pow": "pow", "exp": "exp", "ln": "log",
        "erf": "erf", "atan2": "atan2", "min": "fmin", "max": "fmax", "bessel_j": "jn", "bessel_y": "yn",
    }.get(g)
    if cname is None:
        raise OracleUnsupported(f"math function {g}")
    if complex_variant and g not in ("erf", "atan2", "min", "max", "bessel_j", "bessel_y"):
        cname = "cabs" if g == "abs" else "c" + cname
    return it.call(cname, list(args))


# ---------------------------------------------------------------------------


def integrate_group(ctx, inputs, fref: FormRef, itg_data, entities=(0, 0), kernel_facet_cell=None):
    """Sum over all integrals of one (type, subdomain) group of sum_q integrand(X_q).
    Returns {key: value} with key = ((argnum, dof), ...)."""
    itype = itg_data.integral_type
    cellname = itg_data.domain.ufl_cell().cellname
    tot = AV({})
    for integral in itg_data.integrals:
        ent_cell = None
        if itype in ("exterior_facet", "interior_facet"):
            ent_cell = facet_cellname(cellname, entities[0])
            if kernel_facet_cell is not None and ent_cell != kernel_facet_cell:
                continue
        ev = Evaluator(ctx, inputs, itype=itype, cellname=cellname, coord_element=fref.coord_element(itg_data),
                       arg_elements=fref.arg_elements, coefficients=fref.coefficients,
                       coeff_elements=fref.coeff_elements, constants=fref.constants, entities=entities,
                       complex_mode=fref.complex_mode)
        pts, wts = quadrature_for(integral, itype, cellname, fref.arg_elements, ent_cell)
        ev.set_points(pts, wts)
        integrand = integral.integrand()
        for q in range(len(wts)):
            tot = av_add(tot, ev.evaluate(integrand, q))
    return tot.d


def flat_index(key, shape):
    """A index for an argument-dof key under row-major layout of `shape`."""
    idx = [0] * len(shape)
    for num, dof in key:
        idx[num] = dof
    f = 0
    for i, n in zip(idx, shape):
        f = f * n + i
    return f
