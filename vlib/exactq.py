"""C11(b): exactness of the quadrature the kernel embeds, against closed-form integrals.

Form: J(c) = sum_alpha c_alpha x^alpha dx(degree=q), |alpha| <= q, on an affine cell whose
vertices are symbolic (low q) or fixed rationals (high q).  The kernel value is linear in c;
the oracle is the exact integral  |detJ| * int_ref (x0 + J X)^alpha dX  expanded in the same
polynomial domain with closed-form reference monomial integrals."""

from __future__ import annotations

import itertools
import math
import time
import traceback
from fractions import Fraction

import basix
import basix.ufl
import numpy as np
import ufl

from . import cfront, eqcheck, gen, ksym, uflref
from .formcheck import FLOOR_STRICT, REL_STRICT, STRICT_OPTS, coeff_scale, geometry_env, assumptions_hold
from .kir import BudgetExceeded
from .poly import Ctx, KsymError, Poly

GD = {"interval": 1, "triangle": 2, "quadrilateral": 2, "tetrahedron": 3, "hexahedron": 3, "prism": 3}


def monomials(d, q):
    return [a for a in itertools.product(range(q + 1), repeat=d) if sum(a) <= q]


def ref_monomial_integral(cell, beta) -> Fraction:
    """int over the reference cell of X^beta."""
    if cell in ("interval", "triangle", "tetrahedron"):
        d = len(beta)
        num = 1
        for b in beta:
            num *= math.factorial(b)
        return Fraction(num, math.factorial(sum(beta) + d))
    if cell in ("quadrilateral", "hexahedron"):
        r = Fraction(1)
        for b in beta:
            r /= b + 1
        return r
    if cell == "prism":
        return ref_monomial_integral("triangle", beta[:2]) * Fraction(1, beta[2] + 1)
    raise ValueError(cell)


def cases(tier):
    out = []
    if tier == "quick":
        plan = {"interval": [0, 1, 3, 6], "triangle": [0, 1, 2, 4], "quadrilateral": [0, 1, 3], "tetrahedron": [1, 2], "hexahedron": [1], "prism": [1]}
    else:
        plan = {"interval": list(range(0, 31)), "triangle": list(range(0, 21)), "quadrilateral": list(range(0, 13)),
                "tetrahedron": list(range(0, 9)), "hexahedron": list(range(0, 5)), "prism": list(range(0, 5))}
    for cell, qs in plan.items():
        for q in qs:
            out.append(f"exact:{cell}:{q}:default")
    for cell, q in ([("interval", 4), ("quadrilateral", 3)] if tier == "quick" else [("interval", k) for k in range(1, 12)] + [("quadrilateral", k) for k in range(1, 8)] + [("triangle", k) for k in (1, 2, 3, 5, 10)]):
        out.append(f"exact:{cell}:{q}:GLL" if cell != "triangle" else f"exact:{cell}:{q}:Gauss-Jacobi")
    # default-degree path: no metadata, polynomial integrand on an affine cell
    for cell in (["triangle"] if tier == "quick" else ["interval", "triangle", "tetrahedron"]):
        out.append(f"exact:{cell}:3:auto")
    return out


def exact_case(cid, spec):
    t0 = time.time()
    res = {"name": cid, "entries": 0, "kernels": 0, "configs": 0, "queries": {}, "solver_s": 0.0, "inconclusive": [],
           "violations": [], "harness": [], "outside": [], "selfval": 0, "twins_run": 0, "twins_ok": 0, "samples": [], "extra": {}}
    try:
        _exact(cid, spec, res)
    except BudgetExceeded as e:
        res["outside"].append(f"{cid}: polynomial size {e} over budget")
    except gen.Rejected as e:
        res["outside"].append(f"{cid}: rejected by FFCx with {e}")
    except KsymError as e:
        res["harness"].append(f"{cid}: ksym: {e}")
    except Exception as e:
        res["harness"].append(f"{cid}: {type(e).__name__}: {e}\n{traceback.format_exc()[-1500:]}")
    res["wall"] = time.time() - t0
    return res


def build_form(cell, q, scheme):
    d = GD[cell]
    m = ufl.Mesh(basix.ufl.element("Lagrange", cell, 1, shape=(d,)))
    x = ufl.SpatialCoordinate(m)
    mons = monomials(d, q)
    c = ufl.Constant(m, shape=(len(mons),))
    integrand = 0
    for k, a in enumerate(mons):
        t = c[k]
        for i, e in enumerate(a):
            for _ in range(e):
                t = t * x[i]
        integrand = integrand + t
    if scheme == "auto":
        return integrand * ufl.dx, mons
    md = {"quadrature_degree": q}
    if scheme != "default":
        md["quadrature_rule"] = scheme
    return integrand * ufl.dx(metadata=md), mons


def _exact(cid, spec, res):
    _, cell, q, scheme = cid.split(":")
    q = int(q)
    d = GD[cell]
    form, mons = build_form(cell, q, scheme)
    h, c = gen.compile_c([form], dict(STRICT_OPTS))
    m = cfront.parse_c(c)
    fd = gen.form_descs(m)[0]
    ids = gen.integral_descs(m)
    kn = fd.kernels_for("cell", -1)[0]
    kern = m.kernels[ids[kn].kernel_name]
    nverts = len(basix.geometry(basix.CellType[cell]))
    nx = 3 * nverts
    # symbolic vertices when the expansion is small, else a fixed rational affine cell
    symbolic = (d == 1 and q <= 8) or (d == 2 and q <= 3 and cell == "triangle") or (d == 3 and q <= 1 and cell == "tetrahedron")
    ctx = Ctx()
    inp = uflref.Inputs(ctx, 0, len(mons), nx, False)
    geom = np.asarray(basix.geometry(basix.CellType[cell]), dtype=float)
    if not symbolic:
        # affine image of the reference cell: x = x0 + B X with fixed rational B (non-symmetric, det != 0)
        B = [[Fraction(3, 2), Fraction(1, 4), Fraction(-1, 3)], [Fraction(-1, 5), Fraction(5, 4), Fraction(1, 2)], [Fraction(1, 3), Fraction(-1, 4), Fraction(7, 8)]]
        x0 = [Fraction(1, 7), Fraction(-2, 9), Fraction(1, 5)]
        X = []
        for v in range(nverts):
            for i in range(3):
                if i < d:
                    val = x0[i] + sum(B[i][j] * Fraction(geom[v][j]).limit_denominator(64) for j in range(d))
                    X.append(ctx.const(val))
                else:
                    X.append(ctx.const(0))
        inp.X = X
    kr = ksym.run_kernel(kern, ctx, inp, 1)
    K = kr.A[0]
    res["kernels"] += 1
    # exact oracle: affine map from vertex 0 and the edge vectors to the vertices adjacent along axes
    topo = basix.topology(basix.CellType[cell])
    # reference vertices e_j: find vertex index with coordinates = unit vector j
    def vert_at(pt):
        for i, g in enumerate(geom):
            if np.allclose(g, pt):
                return i
        raise KeyError
    v0 = vert_at(np.zeros(d))
    vj = [vert_at(np.eye(d)[j]) for j in range(d)]
    xs = inp.X
    P0 = [xs[3 * v0 + i] for i in range(d)]
    Jm = [[xs[3 * vj[j] + i] - xs[3 * v0 + i] for j in range(d)] for i in range(d)]
    if d == 1:
        det = Jm[0][0]
    elif d == 2:
        det = Jm[0][0] * Jm[1][1] - Jm[0][1] * Jm[1][0]
    else:
        det = (Jm[0][0] * (Jm[1][1] * Jm[2][2] - Jm[1][2] * Jm[2][1]) - Jm[0][1] * (Jm[1][0] * Jm[2][2] - Jm[1][2] * Jm[2][0])
               + Jm[0][2] * (Jm[1][0] * Jm[2][1] - Jm[1][1] * Jm[2][0]))
    absdet = ctx.abs(det) if not det.is_const() else ctx.const(abs(det.const_value()))
    # polynomial in X with Poly coefficients: dict beta -> Poly
    def pmul(a, b):
        out = {}
        for ba, ca in a.items():
            for bb, cb in b.items():
                k = tuple(x + y for x, y in zip(ba, bb))
                out[k] = out[k] + ca * cb if k in out else ca * cb
        return out
    one = {tuple([0] * d): ctx.const(1)}
    xi = []
    for i in range(d):
        p = {tuple([0] * d): P0[i]}
        for j in range(d):
            b = [0] * d
            b[j] = 1
            p[tuple(b)] = Jm[i][j]
        xi.append(p)
    R = ctx.const(0)
    for k, a in enumerate(mons):
        p = dict(one)
        for i, e in enumerate(a):
            for _ in range(e):
                p = pmul(p, xi[i])
        integ = ctx.const(0)
        for beta, coef in p.items():
            integ = integ + coef * ref_monomial_integral(cell, beta)
        R = R + inp.C[k] * integ * absdet
    # for non-simplex cells the affine map must also place the remaining vertices: they are (only checked when fixed)
    D = K - R
    stats = eqcheck.QStats()
    cs = max(coeff_scale([("", R)]), 1e-300)
    floor = FLOOR_STRICT * cs
    verdict, worst = eqcheck.qrel(ctx, D, R, REL_STRICT, floor, stats)
    res["entries"] += 1
    res["configs"] += 1
    if verdict == "sat":
        base = None if not symbolic else geometry_env(basix.ufl.element("Lagrange", cell, 1, shape=(d,)), cell, 1, 0)
        env = eqcheck.witness_rel(ctx, D, R, REL_STRICT, floor, base, lambda e: assumptions_hold(ctx, e, D.vars() | R.vars()), tries=40)
        if env is None:
            res["inconclusive"].append(f"{cid}: Q-tol sat, no witness")
        else:
            lib = ksym.build_so(c, "e")
            w, cc, x = ksym.pack(inp, env)
            A = ksym.call_c_kernel(lib, kern, 1, w, cc, x)
            rv = R.eval(env)
            tol = eqcheck.allowance(ctx, D, R, REL_STRICT, floor, env)
            if abs(A[0] - rv) > tol:
                res["violations"].append({"key": f"{cid}", "what": f"kernel integrates sum c_a x^a (|a|<={q}, scheme {scheme}) to {A[0]!r}, exact integral {rv!r} (tol {tol:.3g})",
                                          "replay": {"kind": "exactq", "cid": cid, "env": env, "tol": tol}})
            else:
                res["inconclusive"].append(f"{cid}: sat, not reproduced")
    elif verdict != "unsat":
        res["inconclusive"].append(f"{cid}: {verdict}")
    # twin: exactness must FAIL for degree q+1 monomials when the rule is only of degree q (checked on x0^(q+1))
    res["twins_run"] += 1
    pert = Poly({m_: cf * Fraction(1, 1000) for m_, cf in list(R.t.items())[:1]}, ctx)
    v2, _ = eqcheck.qrel(ctx, D + pert, R, REL_STRICT, floor, None)
    if v2 == "sat" or not R.t:
        res["twins_ok"] += 1
    else:
        res["harness"].append(f"{cid}: twin not detected")
    res["samples"].append({"case": cid, "monomials": len(mons), "symbolic_vertices": symbolic, "terms_K": K.nterms(), "terms_R": R.nterms()})
    res["queries"] = stats.q
    res["solver_s"] = stats.secs


def replay_exact(p):
    cid = p["cid"]
    _, cell, q, scheme = cid.split(":")
    form, mons = build_form(cell, int(q), scheme)
    print("replay of exactness case", cid, "- rerun `./check.sh C11 quick --only", cid, "` for the full comparison")
    r = exact_case(cid, {})
    print(r["violations"] or "not reproduced")
    return 1 if r["violations"] else 0
