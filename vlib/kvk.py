"""Kernel-vs-kernel comparison: the same form compiled as two variants (options, disabled
optimiser passes, scalar type, backend), both texts executed symbolically on the same
symbolic inputs, difference decided by z3 (Q-ident exact / Q-tol pointwise-relative)."""

from __future__ import annotations

import contextlib
import hashlib
import time
import traceback

import numpy as np
from fractions import Fraction

from . import cfront, corpus, eqcheck, gen, ksym, uflref
from .formcheck import (FLOOR_DEFAULT, FLOOR_STRICT, assumptions_hold, coeff_scale, entity_configs, full_env,
                        geometry_env, kernel_layout, sid_list, split_parts)
from .kernelprops import NPERM
from .kir import BudgetExceeded
from .poly import CPoly, Ctx, KsymError, Poly, parts


@contextlib.contextmanager
def patched(patches):
    """Replace module attributes of /repo's compiler for the duration of one compilation."""
    import ffcx.codegeneration.integral_generator as ig
    import ffcx.codegeneration.expression_generator as eg
    import ffcx.codegeneration.optimizer as opt

    saved = []

    def setattr_(mod, name, val):
        saved.append((mod, name, getattr(mod, name)))
        setattr(mod, name, val)

    for p in patches or []:
        if p == "noopt":
            setattr_(ig, "optimize", lambda code, rule: code)
        elif p == "nofuse_sections":
            setattr_(opt, "fuse_sections", lambda code, name: code)
        elif p == "nofuse_loops":
            setattr_(opt, "fuse_loops", lambda section: section)
        elif p == "nolicm":
            setattr_(opt, "licm", lambda section, rule: section)
        else:
            raise ValueError(p)
    try:
        yield
    finally:
        for mod, name, val in reversed(saved):
            setattr(mod, name, val)


def build_variant(form, var, entry):
    scalar = var.get("scalar") or entry.get("scalar", "float64")
    options = dict(var.get("options") or {})
    options["scalar_type"] = scalar
    lang = var.get("lang", "c")
    with patched(var.get("patches")):
        if lang == "c":
            h, c = gen.compile_c([form], options)
            m = cfront.parse_c(c)
            fd = gen.form_descs(m)[0]
            ids = gen.integral_descs(m)
            ents = []
            for it, sid, kn in fd.entries():
                kname = ids[kn].tt.get(scalar)
                ents.append((it, sid, kn, ids[kn], m.kernels[kname] if kname else None))
            return {"lang": "c", "text": c, "module": m, "entries": ents, "scalar": scalar, "fd": fd}
        else:
            from . import pyfront

            py = gen.compile_numba([form], options)
            m = pyfront.parse_numba(py)
            fd = m.forms[0]
            ents = []
            for it, sid, kn in fd.entries():
                d = m.integrals[kn]
                ents.append((it, sid, kn, d, m.kernels[d.kernel_name]))
            return {"lang": "py", "text": py, "module": m, "entries": ents, "scalar": scalar, "fd": fd}


def _new_res(name):
    return {"name": name, "entries": 0, "kernels": 0, "configs": 0, "queries": {}, "solver_s": 0.0, "inconclusive": [],
            "violations": [], "harness": [], "outside": [], "selfval": 0, "twins_run": 0, "twins_ok": 0, "samples": [],
            "extra": {}}


def compare(name: str, spec: dict) -> dict:
    t0 = time.time()
    res = _new_res(name)
    try:
        _compare(name, spec, res)
    except BudgetExceeded as e:
        res["outside"].append(f"{name}: polynomial size {e} over budget")
    except gen.Rejected as e:
        res["outside"].append(f"{name}: rejected by FFCx with {e}")
    except KsymError as e:
        res["harness"].append(f"{name}: ksym: {e}")
    except Exception as e:
        res["harness"].append(f"{name}: {type(e).__name__}: {e}\n{traceback.format_exc()[-1500:]}")
    res["wall"] = time.time() - t0
    return res


def _value_of(kern, lang, ctx, inp, nA, ents, perms, n_ent=2, n_perm=2):
    return ksym.run_kernel(kern, ctx, inp, nA, entities=ents, perms=perms)


def _compare(name, spec, res):
    tier = spec.get("tier", "quick")
    entry = corpus.REG[name]
    form = corpus.build(name)
    va, vb = spec["A"], spec["B"]
    mode = spec.get("mode", "ident")
    rel = spec.get("rel", 1e-9)
    floor_rel = spec.get("floor", FLOOR_STRICT)
    amap = spec.get("map")
    try:
        A = build_variant(form, va, entry)
    except gen.Rejected as e:
        if spec.get("a_may_reject"):
            res["outside"].append(f"{name}: variant A rejected by FFCx ({e})")
            return
        raise
    try:
        B = build_variant(form, vb, entry)
    except gen.Rejected as e:
        if spec.get("b_may_reject"):
            res["outside"].append(f"{name}: variant B rejected by FFCx ({e})")
            return
        raise
    _compare_built(name, spec, res, form, A, B)


def _compare_built(name, spec, res, form, A, B):
    """Core of the comparison for one form whose two variants are already compiled/parsed
    (A, B as returned by build_variant; possibly taken out of a module holding several objects)."""
    tier = spec.get("tier", "quick")
    va, vb = spec["A"], spec["B"]
    mode = spec.get("mode", "ident")
    rel = spec.get("rel", 1e-9)
    floor_rel = spec.get("floor", FLOOR_STRICT)
    amap = spec.get("map")
    fref = uflref.FormRef(form, A["scalar"])
    real_data = bool(spec.get("real_data"))
    cplx_a = A["scalar"].startswith("complex")
    cplx_b = B["scalar"].startswith("complex")
    stats = eqcheck.QStats()
    libs = {}
    if len(A["entries"]) != len(B["entries"]):
        res["violations"].append({"key": f"{name}:kernel-count", "what": f"variants list {len(A['entries'])} vs {len(B['entries'])} kernels", "replay": None})
        return
    itds = {}
    for itd in fref.fd.integral_data:
        for sid in sid_list(itd):
            itds[(itd.integral_type, sid)] = itd
    done = set()
    for (ita, sida, kna, da, ka), (itb, sidb, knb, db, kb) in zip(A["entries"], B["entries"]):
        if (ita, sida) != (itb, sidb):
            res["violations"].append({"key": f"{name}:dispatch:{ita}:{sida}", "what": f"variants dispatch ({ita},{sida}) vs ({itb},{sidb}) at the same position", "replay": None})
            continue
        if (kna, knb) in done:
            continue
        done.add((kna, knb))
        if ka is None or kb is None:
            res["violations"].append({"key": f"{name}:{kna}:null-kernel", "what": "tabulate_tensor pointer for the requested scalar type is NULL", "replay": None})
            continue
        itd = itds.get((ita, sida))
        if itd is None:
            res["harness"].append(f"{name}: no UFL integral data for ({ita},{sida})")
            continue
        itype = ita
        cellname = itd.domain.ufl_cell().cellname
        nw, nc, nx, shape, nA, width, cel = kernel_layout(fref, itd)
        nA_b = nA
        if amap == "diagonal" and len(shape) == 2:
            nA_b = shape[0]
        res["kernels"] += 1
        facet_cell = da.domain if itype in ("exterior_facet", "interior_facet") else None
        cfgs = entity_configs(itype, cellname, tier, facet_cell)
        nperm = NPERM.get(facet_cell, 1) if itype == "interior_facet" else 1
        perm_cfgs = [(0, 0)] if nperm == 1 else ([(0, 0), (1, nperm - 1)] if tier == "quick" else [(a, b) for a in range(nperm) for b in range(nperm)][:12])
        if tier == "quick":
            cfgs = cfgs[:3]
        for ci, ents in enumerate(cfgs):
            for perms in perm_cfgs:
                ctx = Ctx()
                inp = uflref.Inputs(ctx, nw, nc, nx, cplx_a or cplx_b, real_data=real_data or not (cplx_a and cplx_b))
                ra = ksym.run_kernel(ka, ctx, inp, nA, entities=ents, perms=perms)
                rb = ksym.run_kernel(kb, ctx, inp, nA_b, entities=ents, perms=perms)
                res["configs"] += 1
                label = f"{name}:{itype}:{sida}:ents={ents}:perm={perms}"
                for r_, tag in ((ra, "A"), (rb, "B")):
                    bad = [e for e in r_.interp.events if e.kind in ("oob_read", "oob_write", "uninit_read", "write_input")]
                    if bad:
                        res["inconclusive"].append(f"{label}: variant {tag} monitor events {bad[:2]}")
                VA = ra.A
                VB = rb.A
                if amap == "diagonal" and len(shape) == 2:
                    n = shape[0]
                    VA = [ra.A[i * shape[1] + i] for i in range(n)]
                pa = split_parts([v if isinstance(v, CPoly) or not (cplx_a or cplx_b) else CPoly(v, ctx.const(0)) for v in VA])
                pb = split_parts([v if isinstance(v, CPoly) or not (cplx_a or cplx_b) else CPoly(v, ctx.const(0)) for v in VB])
                if len(pa) != len(pb):
                    res["violations"].append({"key": f"{name}:{kna}:tensor-size", "what": f"variants produce {len(pa)} vs {len(pb)} entries", "replay": None})
                    continue
                cs = max(coeff_scale(pa), 1e-300)
                floor = floor_rel * cs
                cand = []
                for (lab, a), (_, b) in zip(pa, pb):
                    D = b - a
                    res["entries"] += 1
                    if mode == "ident":
                        verdict, model = eqcheck.qident(ctx, D, stats)
                    else:
                        verdict, worst = eqcheck.qrel(ctx, D, a, rel, floor, stats)
                    if verdict == "unsat":
                        continue
                    if verdict != "sat":
                        res["inconclusive"].append(f"{label} entry {lab}: solver {verdict}")
                        continue
                    cand.append((lab, D, a))
                # replay: concrete input from the witness search, both real builds
                for lab, D, a in cand[:3]:
                    base_env = geometry_env(cel, cellname, width, 0)
                    used = D.vars() | a.vars()
                    r_use, f_use = (rel, floor) if mode != "ident" else (1e-12, 1e-14 * cs)
                    env = eqcheck.witness_rel(ctx, D, a, r_use, f_use, base_env, lambda e: assumptions_hold(ctx, e, used), tries=60)
                    if env is None:
                        res["inconclusive"].append(f"{label} entry {lab}: solver sat but no concrete witness inside the assumptions")
                        continue
                    va_, vb_ = _concrete(A, ka, libs, "A", inp, env, nA, ents, perms), _concrete(B, kb, libs, "B", inp, env, nA_b, ents, perms)
                    if va_ is None or vb_ is None:
                        res["inconclusive"].append(f"{label} entry {lab}: sat; no executable replay for this backend pair")
                        continue
                    idx = int(lab.split(".")[0])
                    ia = idx * shape[1] + idx if (amap == "diagonal" and len(shape) == 2) else idx
                    xa, xb = va_[ia], vb_[idx]
                    if lab.endswith(".im"):
                        xa, xb = complex(xa).imag, complex(xb).imag
                    elif lab.endswith(".re"):
                        xa, xb = complex(xa).real, complex(xb).real
                    tol = max(eqcheck.allowance(ctx, D, a, r_use, f_use, env), 1e-9 * abs(xa)) if mode != "ident" else 1e-9 * max(abs(xa), abs(xb), 1e-30)
                    if spec.get("single_precision"):
                        tol = max(tol, 2e-5 * max(abs(xa), abs(xb), 1e-6))
                    if abs(xa - xb) > tol:
                        res["violations"].append({
                            "key": f"{name}:{itype}:{sida}:ents={ents}:perm={perms}:A[{lab}]",
                            "what": f"variant A gives {xa!r}, variant B gives {xb!r} (tol {tol:.3g}) [{spec.get('what', '')}]",
                            "replay": {"kind": "kvk", "name": name, "spec": spec, "pos": [ita, sida], "ents": list(ents), "perms": list(perms),
                                       "entry": lab, "env": env, "tol": tol}})
                    else:
                        res["inconclusive"].append(f"{label} entry {lab}: solver sat, not reproduced on the builds")
                # vacuity twin
                if ci == 0 and perms == perm_cfgs[0] and pa:
                    res["twins_run"] += 1
                    j = max((i for i, (_, p) in enumerate(pa) if p.t), key=lambda i: max(abs(float(c)) for c in pa[i][1].t.values()), default=None)
                    if j is None:
                        res["twins_ok"] += 1
                    else:
                        mono, cf = max(pa[j][1].t.items(), key=lambda kv: abs(kv[1]) * eqcheck.mono_bound(ctx, kv[0]))
                        pert = Poly({mono: cf * Fraction(max(1e-3, 100 * rel))}, ctx) if mode != 'ident' else Poly({mono: cf / 1000}, ctx)
                        if mode == "ident":
                            v, _ = eqcheck.qident(ctx, pb[j][1] + pert - pa[j][1], None)
                        else:
                            v, _ = eqcheck.qrel(ctx, pb[j][1] + pert - pa[j][1], pa[j][1], rel, floor, None)
                        if v == "sat":
                            res["twins_ok"] += 1
                        else:
                            res["harness"].append(f"{label}: vacuity twin not detected ({v})")
                if len(res["samples"]) < 2:
                    res["samples"].append({"case": label, "variantA": {k: v for k, v in va.items()}, "variantB": {k: v for k, v in vb.items()},
                                           "entries": len(pa), "max_monomials": max([p.nterms() for _, p in pa] + [0])})
    for k_, d_ in stats.q.items():
        for v_, n_ in d_.items():
            res["queries"].setdefault(k_, {})[v_] = res["queries"].get(k_, {}).get(v_, 0) + n_
    res["solver_s"] += stats.secs
    res["extra"].setdefault("text_hashes", []).extend([hashlib.sha256(A["text"].encode()).hexdigest()[:12], hashlib.sha256(B["text"].encode()).hexdigest()[:12]])


def _concrete(V, kern, libs, tag, inp, env, nA, ents, perms):
    if V["lang"] == "c":
        if tag not in libs:
            libs[tag] = ksym.build_so(V["text"], "v" + tag)
        w, cc, x = ksym.pack(inp, env)
        return ksym.call_c_kernel(libs[tag], kern, nA, w, cc, x, ents, perms)
    from . import pyfront

    return pyfront.call_numba_kernel(V["text"], kern, nA, inp, env, ents, perms)


def replay_kvk(p):
    name, spec = p["name"], p["spec"]
    entry = corpus.REG[name]
    form = corpus.build(name)
    A = build_variant(form, spec["A"], entry)
    B = build_variant(form, spec["B"], entry)
    fref = uflref.FormRef(form, A["scalar"])
    pos = tuple(p["pos"])
    ea = next(e for e in A["entries"] if (e[0], e[1]) == pos)
    eb = next(e for e in B["entries"] if (e[0], e[1]) == pos)
    itd = next(d for d in fref.fd.integral_data if d.integral_type == pos[0] and pos[1] in sid_list(d))
    nw, nc, nx, shape, nA, width, cel = kernel_layout(fref, itd)
    diag = spec.get("map") == "diagonal" and len(shape) == 2
    nA_b = shape[0] if diag else nA
    cplx_a, cplx_b = A["scalar"].startswith("complex"), B["scalar"].startswith("complex")
    ctx = Ctx()
    inp = uflref.Inputs(ctx, nw, nc, nx, cplx_a or cplx_b, real_data=bool(spec.get("real_data")) or not (cplx_a and cplx_b))
    env = {k: float(v) for k, v in p["env"].items()}
    for v in ctx.vars:
        if v.defn is None:
            env.setdefault(v.name, 0.0)
    libs = {}
    va = _concrete(A, ea[4], libs, "A", inp, env, nA, p["ents"], p["perms"])
    vb = _concrete(B, eb[4], libs, "B", inp, env, nA_b, p["ents"], p["perms"])
    lab = p["entry"]
    idx = int(lab.split(".")[0])
    ia = idx * shape[1] + idx if diag else idx
    xa, xb = va[ia], vb[idx]
    if lab.endswith(".im"):
        xa, xb = complex(xa).imag, complex(xb).imag
    elif lab.endswith(".re"):
        xa, xb = complex(xa).real, complex(xb).real
    print(f"form={name} integral={pos} entities={p['ents']} perms={p['perms']} entry A[{lab}]")
    print(f"  variant A {spec['A']}: {xa!r}")
    print(f"  variant B {spec['B']}: {xb!r}")
    bad = abs(xa - xb) > p["tol"]
    print("  REPRODUCED" if bad else "  not reproduced on this tree")
    return 1 if bad else 0
