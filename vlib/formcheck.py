"""Kernel-vs-oracle pipeline for one corpus form (runs inside a worker process)."""

from __future__ import annotations

import itertools
import json
import time
import traceback

import basix
import numpy as np

from . import cfront, corpus, eqcheck, gen, ksym, uflref
from .kir import BudgetExceeded
from fractions import Fraction

from .poly import CPoly, Ctx, KsymError, Poly, parts

REL_DEFAULT = 1e-5   # with FFCx's default table_rtol=1e-6 / table_atol=1e-9
REL_STRICT = 1e-9    # with table_rtol=table_atol=1e-13 in the compile options
STRICT_OPTS = {"table_rtol": 1e-13, "table_atol": 1e-13}


def sid_list(itd):
    s = itd.subdomain_id
    if not isinstance(s, tuple):
        s = (s,)
    return [-1 if x == "otherwise" else int(x) for x in s]


def num_entities(cellname, itype):
    ct = basix.CellType[cellname]
    topo = basix.topology(ct)
    tdim = len(topo) - 1
    if itype == "cell":
        return 1
    if itype in ("exterior_facet", "interior_facet"):
        return len(topo[tdim - 1])
    if itype == "vertex":
        return len(topo[0])
    raise ValueError(itype)


def entity_configs(itype, cellname, tier, facet_cell=None):
    n = num_entities(cellname, itype)
    ents = list(range(n))
    if facet_cell is not None and itype in ("exterior_facet", "interior_facet"):
        ents = [e for e in ents if uflref.facet_cellname(cellname, e) == facet_cell]
    if itype == "cell":
        return [(0, 0)]
    if itype in ("exterior_facet", "vertex"):
        return [(e, 0) for e in ents]
    pairs = list(itertools.product(ents, ents))
    if tier == "quick" and len(pairs) > 6:
        # every '+' facet and every '-' facet at least once, plus off-diagonal mixes
        k = len(ents)
        sel = [(ents[i], ents[(i + 1) % k]) for i in range(k)] + [(ents[0], ents[0]), (ents[-1], ents[0])]
        pairs = list(dict.fromkeys(sel))
    return pairs


def geometry_env(cel, cellname, width, seed=0, perturb=0.08):
    """Concrete coordinate_dofs near the reference cell (second cell = same nodes shifted)."""
    rng = np.random.RandomState(seed + 17)
    gdim = cel.reference_value_shape[0]
    sub = cel._sub_element if hasattr(cel, "_sub_element") else cel.sub_elements[0]
    pts = np.asarray(sub.basix_element.points, dtype=float)
    env = {}
    nn = len(pts)
    for r in range(width):
        for k in range(nn):
            for i in range(3):
                v = 0.0
                if i < gdim:
                    v = (pts[k][i] if i < pts.shape[1] else 0.0) + rng.uniform(-perturb, perturb) + 0.3 * r
                    v = float(np.round(v, 3))
                env[f"x{r * 3 * nn + 3 * k + i}"] = v
    return env


def full_env(ctx: Ctx, cel, cellname, width, seed):
    rng = np.random.RandomState(seed)
    env = geometry_env(cel, cellname, width, seed)
    for v in ctx.vars:
        if v.defn is None and v.name not in env:
            env[v.name] = float(np.round(rng.uniform(0.2, 1.5) * (1 if rng.rand() < 0.7 else -1), 3))
    return env


def valid_env(ctx: Ctx, cel, cellname, width, seed):
    """A concrete input inside the stated assumptions (divisors away from 0, sqrt/log arguments
    in their domain), or None."""
    for k in range(12):
        env = full_env(ctx, cel, cellname, width, seed + 101 * k)
        if assumptions_hold(ctx, env):
            return env
    return None


def assumptions_hold(ctx: Ctx, env, used_vars=None) -> bool:
    val = ctx.evaluator(env)
    for kind, ids in ctx.atoms.items():
        for vid in ids:
            if used_vars is not None and vid not in used_vars:
                continue
            a = ctx.vars[vid].defn[1]
            try:
                if kind == "inv" and abs(a[0].eval_with(val)) < ctx.delta:
                    return False
                if kind == "sqrt" and a[0].eval_with(val) < 0:
                    return False
                if kind == "fn:ln" and a[0].eval_with(val) < ctx.delta:
                    return False
                x = val(vid)
                if x != x:
                    return False
            except Exception:
                return False
    return True


def kernel_layout(fref: uflref.FormRef, itd, diag=False):
    itype = itd.integral_type
    nw, nc, shape = fref.sizes(itype)
    cel = fref.coord_element(itd)
    gdim = cel.reference_value_shape[0]
    width = 2 if itype == "interior_facet" else 1
    nx = 3 * (cel.dim // gdim) * width
    if diag:
        shape = shape[:1]
    nA = int(np.prod(shape)) if shape else 1
    return nw, nc, nx, shape, nA, width, cel


def to_flat(R: dict, shape, nA, zero):
    out = [zero] * nA
    for key, val in R.items():
        f = uflref.flat_index(key, shape)
        out[f] = out[f] + val if out[f] is not zero else val
    return out


def unify(ctx, K, R):
    """Lift both value lists to complex if any entry of either is complex."""
    if any(isinstance(v, CPoly) for v in list(K) + list(R)):
        z = ctx.const(0)
        K = [v if isinstance(v, CPoly) else CPoly(v, z) for v in K]
        R = [v if isinstance(v, CPoly) else CPoly(v, z) for v in R]
    return K, R


def split_parts(vals):
    """list of values -> list of (label, Poly) real parts and imaginary parts."""
    out = []
    for i, v in enumerate(vals):
        if isinstance(v, CPoly):
            out.append((f"{i}.re", v.re))
            out.append((f"{i}.im", v.im))
        else:
            out.append((f"{i}", v))
    return out


FLOOR_STRICT = 1e-12
FLOOR_DEFAULT = 1e-8


def coeff_scale(polys):
    m = 0.0
    for _, p in polys:
        for c in p.t.values():
            a = abs(float(c))
            if a > m:
                m = a
    return m


def compare_values(ctx, K, R, rel, stats, res, label, base_env=None, witness_seed=0):
    """Pointwise-relative Q-tol on every entry of K - R.
    Returns candidate violations [(entry label, env, D, Rpoly, rel, floor)] to be replayed."""
    K, R = unify(ctx, K, R)
    kp = split_parts(K)
    rp = split_parts(R)
    cs = max(coeff_scale(rp), 1e-300)
    floor = (FLOOR_STRICT if rel <= 1e-8 else FLOOR_DEFAULT) * cs
    viol = []
    for (lab, k), (_, r) in zip(kp, rp):
        D = k - r
        verdict, worst = eqcheck.qrel(ctx, D, r, rel, floor, stats)
        res["entries"] += 1
        if verdict == "unsat":
            continue
        if verdict != "sat":
            res["inconclusive"].append(f"{label} entry {lab}: solver {verdict}")
            continue
        used = D.vars() | k.vars() | r.vars()
        env = eqcheck.witness_rel(ctx, D, r, rel, floor, base_env, lambda e: assumptions_hold(ctx, e, used), tries=60, seed=witness_seed)
        if env is None:
            res["inconclusive"].append(f"{label} entry {lab}: Q-tol sat (worst monomial excess {worst[0] if worst else 0:.3g}) but no concrete witness inside the assumptions")
            continue
        viol.append((lab, env, D, r, rel, floor))
    return viol


def run_form(name: str, spec: dict) -> dict:
    """spec keys: tier, scalar, options, rel, itypes(optional), check ("oracle")"""
    t0 = time.time()
    res = {"name": name, "ok": True, "entries": 0, "kernels": 0, "configs": 0, "queries": {}, "solver_s": 0.0,
           "inconclusive": [], "violations": [], "harness": [], "outside": [], "selfval": 0, "twins_run": 0,
           "twins_ok": 0, "samples": [], "events": [], "kernel_hashes": []}
    try:
        _run_form(name, spec, res)
    except BudgetExceeded as e:
        res["outside"].append(f"{name}: polynomial size {e} over budget")
    except gen.Rejected as e:
        res["outside"].append(f"{name}: rejected by FFCx with {e}")
    except uflref.OracleUnsupported as e:
        res["outside"].append(f"{name}: oracle does not cover: {e}")
    except KsymError as e:
        res["harness"].append(f"{name}: ksym: {e}")
    except Exception as e:
        res["harness"].append(f"{name}: {type(e).__name__}: {e}\n{traceback.format_exc()[-1500:]}")
    res["wall"] = time.time() - t0
    return res


def _run_form(name, spec, res):
    tier = spec.get("tier", "quick")
    entry = corpus.REG[name]
    scalar = spec.get("scalar") or entry.get("scalar", "float64")
    options = dict(spec.get("options") or {})
    options["scalar_type"] = scalar
    rel = spec.get("rel", REL_DEFAULT)
    form = corpus.build(name)
    h, c = gen.compile_c([form], options)
    m = cfront.parse_c(c)
    fds = gen.form_descs(m)
    ids = gen.integral_descs(m)
    fd = fds[0]
    fref = uflref.FormRef(form, scalar)
    lib = ksym.build_so(c, "f")
    stats = eqcheck.QStats()
    import hashlib

    res["kernel_hashes"].append(hashlib.sha256(c.encode()).hexdigest()[:16])
    want_itypes = spec.get("itypes")
    done_pairs = set()
    for itd in fref.fd.integral_data:
        itype = itd.integral_type
        if want_itypes and itype not in want_itypes:
            continue
        cellname = itd.domain.ufl_cell().cellname
        nw, nc, nx, shape, nA, width, cel = kernel_layout(fref, itd)
        sids = sid_list(itd)
        for sid in sids[:1] if not spec.get("all_ids") else sids:
            if (itype, sid) in done_pairs:
                continue
            done_pairs.add((itype, sid))
            # all UFL integral groups that contribute to this (type, id) and all kernels listed for it
            itds_sid = [d for d in fref.fd.integral_data if d.integral_type == itype and sid in sid_list(d)]
            knames = fd.kernels_for(itype, sid)
            if not knames:
                res["violations"].append({"key": f"{name}:{itype}:{sid}:missing-kernel", "what": f"no kernel listed under ({itype},{sid})", "replay": None})
                continue
            by_dom = {}
            for kn in knames:
                by_dom.setdefault(ids[kn].domain if itype in ("exterior_facet", "interior_facet") else None, []).append(kn)
            for facet_cell, kns in by_dom.items():
                kerns = []
                for kn in kns:
                    idesc = ids[kn]
                    k_ = m.kernels[idesc.tt[scalar]] if idesc.tt.get(scalar) else None
                    if k_ is None:
                        res["violations"].append({"key": f"{name}:{kn}:no-{scalar}-kernel", "what": f"tabulate_tensor_{scalar} is NULL", "replay": None})
                    else:
                        kerns.append(k_)
                if not kerns:
                    continue
                kn = kns[0]
                res["kernels"] += len(kerns)
                cfgs = entity_configs(itype, cellname, tier, facet_cell)
                for ci, ents in enumerate(cfgs):
                    ctx = Ctx()
                    inp = uflref.Inputs(ctx, nw, nc, nx, fref.complex_mode)
                    kr = None
                    for k_ in kerns:
                        kr_ = ksym.run_kernel(k_, ctx, inp, nA, entities=ents, perms=(0, 0))
                        bad = [e for e in kr_.interp.events if e.kind in ("oob_read", "oob_write", "uninit_read", "write_input", "redeclared")]
                        if bad:
                            res["events"].append(f"{name}:{k_.name}:{ents}: {bad[:3]}")
                            oob = [e for e in bad if e.kind in ("oob_read", "oob_write") and e.array in ("A", "w", "c", "coordinate_dofs")]
                            if oob:
                                from .kernelprops import asan_run, contract_extents

                                failed, log = asan_run(c, k_, contract_extents(fref, itd), ents, (0, 0))
                                if failed:
                                    res["violations"].append({"key": f"{name}:{itype}:{sid}:out-of-bounds:{oob[0].array}",
                                                              "what": f"kernel accesses {oob[0].array}{oob[0].index} outside the extent the form implies ({oob[0].extent}); confirmed by ASan", "replay": None})
                        if kr is None:
                            kr = kr_
                        else:
                            kr.A = [a + b for a, b in zip(kr.A, kr_.A)]
                    R = {}
                    for d_ in itds_sid:
                        Rd = uflref.integrate_group(ctx, inp, fref, d_, entities=ents, kernel_facet_cell=facet_cell)
                        R = uflref.av_add(uflref.AV(R), uflref.AV(Rd)).d
                    zero = CPoly(ctx.const(0), ctx.const(0)) if fref.complex_mode else ctx.const(0)
                    Rf = to_flat(R, shape, nA, zero)
                    res["configs"] += 1
                    base_env = geometry_env(cel, cellname, width, 0)
                    label = f"{name}:{itype}:{sid}:{kn[-12:]}:ents={ents}"

                    def call_all(w, cc, x):
                        A = None
                        for k_ in kerns:
                            A = ksym.call_c_kernel(lib, k_, nA, w, cc, x, ents, (0, 0), A0=A)
                        return A

                    # translator self-validation against the real build of the same text
                    if ci == 0:
                        for s in (1, 2):
                            env = valid_env(ctx, cel, cellname, width, s)
                            if env is None:
                                res["inconclusive"].append(f"{label}: no concrete input inside the assumptions for self-validation")
                                continue
                            w, cc, x = ksym.pack(inp, env)
                            Ac = call_all(w, cc, x)
                            val = ctx.evaluator(env)
                            As = np.array([complex(p.eval_with(val)) if isinstance(p, CPoly) else p.eval_with(val) for p in kr.A])
                            err = np.max(np.abs(Ac - As)) if nA else 0.0
                            sc = max(1.0, float(np.max(np.abs(Ac))) if nA else 1.0)
                            sv_tol = 5e-5 if str(scalar) in ("float32", "complex64") else 1e-8  # the real build computes in the kernel's precision
                            if not (err <= sv_tol * sc) and np.all(np.isfinite(Ac)):
                                res["harness"].append(f"{label}: translator self-validation failed (err {err:.3g})")
                            res["selfval"] += 1
                    viol = compare_values(ctx, kr.A, Rf, rel, stats, res, label, base_env=base_env)
                    for lab, env, D, rpoly, rel_, floor_ in viol:
                        w, cc, x = ksym.pack(inp, env)
                        Ac = call_all(w, cc, x)
                        idx = int(lab.split(".")[0])
                        kval = Ac[idx]
                        if lab.endswith(".im"):
                            kval = kval.imag
                        elif lab.endswith(".re"):
                            kval = kval.real
                        rval = rpoly.eval(env)
                        tol = eqcheck.allowance(ctx, D, rpoly, rel_, floor_, env)
                        if abs(kval - rval) > tol and np.isfinite(kval):
                            key = f"{name}:{itype}:{sid}:ents={ents}:A[{lab}]"
                            res["violations"].append({
                                "key": key,
                                "what": f"kernel {kval!r} vs form value {rval!r} (allowance {tol:.3g}) at a solver-guided input",
                                "replay": {"name": name, "spec": spec, "itype": itype, "sid": sid, "kernel": kn, "ents": list(ents),
                                           "entry": lab, "env": env, "tol": tol, "kernel_value": repr(kval), "oracle_value": repr(rval)},
                            })
                        else:
                            res["inconclusive"].append(f"{label} entry {lab}: solver sat, not reproduced on the compiled kernel")
                    # vacuity twin: a 1e-3 relative perturbation of one coefficient must come back sat
                    if ci == 0 and nA:
                        res["twins_run"] += 1
                        KU, RU = unify(ctx, kr.A, Rf)
                        kp = split_parts(KU)
                        rp = split_parts(RU)
                        j = max((i for i, (_, p) in enumerate(kp) if p.t), key=lambda i: max(abs(float(c)) for c in kp[i][1].t.values()), default=None)
                        if j is not None and len(rp) == len(kp):
                            mono, cf = max(kp[j][1].t.items(), key=lambda kv: abs(kv[1]) * eqcheck.mono_bound(ctx, kv[0]))
                            pert = Poly({mono: cf * Fraction(1, 1000)}, ctx)
                            cs = max(coeff_scale(rp), 1e-300)
                            floor = (FLOOR_STRICT if rel <= 1e-8 else FLOOR_DEFAULT) * cs
                            v, _ = eqcheck.qrel(ctx, kp[j][1] + pert - rp[j][1], rp[j][1], rel, floor, None)
                            if v == "sat":
                                res["twins_ok"] += 1
                            else:
                                res["harness"].append(f"{label}: vacuity twin not detected ({v})")
                        else:
                            res["twins_ok"] += 1
                    if len(res["samples"]) < 2:
                        res["samples"].append({"case": label, "A_entries": nA, "inputs": len([v for v in ctx.vars if v.defn is None]),
                                               "atoms": {k: len(v) for k, v in ctx.atoms.items()},
                                               "max_monomials": max([p.nterms() for p in kr.A] + [0])})
    res["queries"] = stats.q
    res["solver_s"] = stats.secs
