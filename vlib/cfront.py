"""C front-end: generated .c text -> gcc -E (real ufcx.h, fake libc headers) ->
pycparser -> kernel IR + descriptor initialisers."""

from __future__ import annotations

import re
import subprocess
import tempfile
from pathlib import Path

from pycparser import c_ast, c_parser

from .poly import KsymError

FAKE = Path(__file__).parent / "fake_include"
import os

UFCX_DIR = os.environ.get("VERIF_REPO", "/repo") + "/ffcx/codegeneration"


class Kernel:
    def __init__(self, name, params, body, lang, scalar_tclass, ret="void"):
        self.name, self.params, self.body, self.lang = name, params, body, lang
        self.scalar_tclass = scalar_tclass
        self.ret = ret
        self.declared_sizes = {}  # numba: carray sizes


class Module:
    def __init__(self):
        self.kernels: dict[str, Kernel] = {}
        self.globals: dict[str, object] = {}
        self.global_types: dict[str, str] = {}
        self.global_quals: dict[str, set] = {}
        self.order: list[str] = []
        self.text = ""


def preprocess(text: str) -> str:
    with tempfile.NamedTemporaryFile("w", suffix=".c", delete=False, dir="/verif/.work" if Path("/verif/.work").exists() else None) as f:
        f.write(text)
        fn = f.name
    try:
        pp = subprocess.run(
            ["gcc", "-E", "-P", "-std=c17", "-nostdinc", f"-I{FAKE}", f"-I{UFCX_DIR}", fn],
            capture_output=True,
            text=True,
        )
    finally:
        Path(fn).unlink(missing_ok=True)
    if pp.returncode:
        raise KsymError("preprocess failed: " + pp.stderr[:400])
    return pp.stdout


def _type_names(t):
    """names list + quals of the innermost TypeDecl/IdentifierType"""
    while isinstance(t, (c_ast.PtrDecl, c_ast.ArrayDecl)):
        t = t.type
    if isinstance(t, c_ast.TypeDecl):
        q = set(t.quals or [])
        it = t.type
        if isinstance(it, c_ast.IdentifierType):
            return it.names, q
        if isinstance(it, c_ast.Struct):
            return ["struct", it.name], q
    if isinstance(t, c_ast.FuncDecl):
        return ["func"], set()
    return ["?"], set()


def tclass_of(names) -> str:
    s = " ".join(names)
    if "_Complex" in s:
        return "complex"
    if "double" in s or "float" in s:
        return "real"
    if s in ("_Bool", "bool"):
        return "bool"
    if any(n in ("int", "long", "uint8_t", "int32_t", "int64_t", "uint64_t", "unsigned", "char", "short") for n in names):
        return "int"
    return "other:" + s


def ctype_of(names) -> str:
    return " ".join(names)


_NUM_SUFFIX = re.compile(r"[uUlLfF]+$")


def const_value(c: c_ast.Constant):
    t, v = c.type, c.value
    if t in ("int", "long int", "unsigned int", "unsigned long int", "long long int", "unsigned long long int"):
        return int(_NUM_SUFFIX.sub("", v), 0)
    if t in ("double", "float", "long double"):
        vv = v
        if not vv.lower().startswith("0x"):
            vv = re.sub(r"[fFlL]$", "", vv)
        return float(vv)
    if t == "string":
        return v[1:-1]
    if t == "char":
        return v
    raise KsymError(f"constant type {t}")


class _Conv:
    def __init__(self):
        pass

    def expr(self, n):
        if isinstance(n, c_ast.Constant):
            v = const_value(n)
            if isinstance(v, str):
                raise KsymError("string in expression")
            return ("num", v)
        if isinstance(n, c_ast.ID):
            return ("id", n.name)
        if isinstance(n, c_ast.ArrayRef):
            idx = []
            b = n
            while isinstance(b, c_ast.ArrayRef):
                idx.append(self.expr(b.subscript))
                b = b.name
            if not isinstance(b, c_ast.ID):
                raise KsymError("subscript of non-identifier")
            return ("idx", b.name, idx[::-1])
        if isinstance(n, c_ast.BinaryOp):
            return ("bin", n.op, self.expr(n.left), self.expr(n.right))
        if isinstance(n, c_ast.UnaryOp):
            if n.op in ("-", "+", "!"):
                return ("un", n.op, self.expr(n.expr))
            raise KsymError(f"unary operator {n.op}")
        if isinstance(n, c_ast.TernaryOp):
            return ("cond", self.expr(n.cond), self.expr(n.iftrue), self.expr(n.iffalse))
        if isinstance(n, c_ast.FuncCall):
            if not isinstance(n.name, c_ast.ID):
                raise KsymError("indirect call")
            args = [self.expr(a) for a in (n.args.exprs if n.args else [])]
            return ("call", n.name.name, args)
        if isinstance(n, c_ast.InitList):
            return ("init", [self.expr(x) for x in n.exprs])
        if isinstance(n, c_ast.Cast):
            raise KsymError("cast in kernel body")
        raise KsymError(f"expression node {type(n).__name__}")

    def decl(self, d: c_ast.Decl):
        line = d.coord.line if d.coord else None
        quals = set(d.quals or []) | set(d.storage or [])
        t = d.type
        shape = None
        if isinstance(t, c_ast.ArrayDecl):
            shape = []
            while isinstance(t, c_ast.ArrayDecl):
                if t.dim is None:
                    raise KsymError(f"array {d.name} without size")
                dv = self.expr(t.dim)
                if dv[0] != "num" or not isinstance(dv[1], int):
                    raise KsymError(f"non-literal array size for {d.name}")
                shape.append(dv[1])
                t = t.type
        if isinstance(t, c_ast.PtrDecl):
            raise KsymError(f"pointer local {d.name}")
        names, q2 = _type_names(t)
        quals |= q2
        tc = tclass_of(names)
        if tc.startswith("other"):
            raise KsymError(f"local {d.name} of type {names}")
        init = self.expr(d.init) if d.init is not None else None
        return ("decl", d.name, tc, shape, init, quals, line), ctype_of(names)

    def stmts(self, items, ctypes):
        out = []
        for s in items or []:
            out.extend(self.stmt(s, ctypes))
        return out

    def stmt(self, s, ctypes):
        if isinstance(s, c_ast.Decl):
            st, ct = self.decl(s)
            ctypes[s.name] = ct
            return [st]
        if isinstance(s, c_ast.DeclList):
            r = []
            for d in s.decls:
                r += self.stmt(d, ctypes)
            return r
        if isinstance(s, c_ast.Assignment):
            line = s.coord.line if s.coord else None
            if s.op not in ("=", "+=", "-=", "*=", "/="):
                raise KsymError(f"assignment operator {s.op}")
            return [("assign", self.expr(s.lvalue), s.op, self.expr(s.rvalue), line)]
        if isinstance(s, c_ast.Compound):
            return [("block", self.stmts(s.block_items, ctypes))]
        if isinstance(s, c_ast.For):
            line = s.coord.line if s.coord else None
            if not (isinstance(s.init, c_ast.DeclList) and len(s.init.decls) == 1):
                raise KsymError("for-init is not a single declaration")
            d = s.init.decls[0]
            names, _ = _type_names(d.type)
            if tclass_of(names) != "int":
                raise KsymError("loop variable is not int")
            var = d.name
            c = s.cond
            if not (isinstance(c, c_ast.BinaryOp) and c.op == "<" and isinstance(c.left, c_ast.ID) and c.left.name == var):
                raise KsymError("for-condition is not `i < end`")
            nx = s.next
            if not (isinstance(nx, c_ast.UnaryOp) and nx.op in ("++", "p++") and isinstance(nx.expr, c_ast.ID) and nx.expr.name == var):
                raise KsymError("for-next is not ++i")
            body = s.stmt
            items = body.block_items if isinstance(body, c_ast.Compound) else [body]
            return [("for", var, self.expr(d.init), self.expr(c.right), self.stmts(items, ctypes), line)]
        if isinstance(s, c_ast.EmptyStatement):
            return []
        if isinstance(s, c_ast.Return):
            if s.expr is None:
                return []
            raise KsymError("return with value")
        raise KsymError(f"statement node {type(s).__name__}")


def _static_init(n):
    """Evaluate a file-scope initialiser to python data."""
    if n is None:
        return None
    if isinstance(n, c_ast.Constant):
        return const_value(n)
    if isinstance(n, c_ast.ID):
        return ("ref", n.name)
    if isinstance(n, c_ast.UnaryOp):
        if n.op == "-":
            return -_static_init(n.expr)
        if n.op == "&":
            v = _static_init(n.expr)
            return ("addr", v[1] if isinstance(v, tuple) else v)
        raise KsymError(f"static init unary {n.op}")
    if isinstance(n, c_ast.Cast):
        return _static_init(n.expr)
    if isinstance(n, c_ast.InitList):
        if n.exprs and all(isinstance(x, c_ast.NamedInitializer) for x in n.exprs):
            d = {}
            for x in n.exprs:
                key = ".".join(getattr(k, "name", str(k)) for k in x.name)
                if key in d:
                    raise KsymError(f"duplicate designated initialiser {key}")
                d[key] = _static_init(x.expr)
            return d
        return [_static_init(x) for x in n.exprs]
    if isinstance(n, c_ast.BinaryOp):
        a, b = _static_init(n.left), _static_init(n.right)
        if n.op == "+":
            return a + b
        if n.op == "*":
            if isinstance(b, tuple) and b[0] == "ref" and b[1] in ("_Complex_I", "I"):
                return complex(0, a)
            if isinstance(a, tuple) and a[0] == "ref" and a[1] in ("_Complex_I", "I"):
                return complex(0, b)
            return a * b
        if n.op == "-":
            return a - b
    raise KsymError(f"static initialiser node {type(n).__name__}")


def parse_c(text: str) -> Module:
    pp = preprocess(text)
    try:
        ast = c_parser.CParser().parse(pp)
    except Exception as e:  # pycparser ParseError
        raise KsymError(f"C parse error: {e}")
    m = Module()
    m.text = text
    conv = _Conv()
    for ext in ast.ext:
        if isinstance(ext, c_ast.FuncDef):
            name = ext.decl.name
            fd = ext.decl.type
            params = []
            scalar = None
            for p in fd.args.params if fd.args else []:
                names, quals = _type_names(p.type)
                isptr = isinstance(p.type, c_ast.PtrDecl)
                pq = set(p.type.quals or []) if isptr else set()
                params.append({"name": p.name, "ctype": ctype_of(names), "tclass": tclass_of(names), "ptr": isptr, "const": "const" in quals, "ptrquals": pq})
                if p.name == "A":
                    scalar = tclass_of(names)
            ctypes = {}
            body = conv.stmts(ext.body.block_items, ctypes)
            k = Kernel(name, params, body, "c", scalar)
            k.local_ctypes = ctypes
            rn, _ = _type_names(fd.type)
            k.ret = ctype_of(rn)
            m.kernels[name] = k
            m.order.append(name)
        elif isinstance(ext, c_ast.Decl):
            if isinstance(ext.type, c_ast.FuncDecl) or ext.name is None:
                continue
            if "extern" in (ext.storage or []):
                m.global_types.setdefault(ext.name, "extern")
                continue
            names, quals = _type_names(ext.type)
            if ext.init is not None:
                if ext.name in m.globals:
                    raise KsymError(f"global {ext.name} defined twice")
                m.globals[ext.name] = _static_init(ext.init)
                m.order.append(ext.name)
            m.global_types[ext.name] = ctype_of(names)
            m.global_quals[ext.name] = set(ext.quals or []) | set(ext.storage or []) | quals
        elif isinstance(ext, c_ast.Typedef):
            continue
    return m


def parse_header(text: str):
    """Names declared `extern` in a generated header."""
    pp = preprocess(text)
    ast = c_parser.CParser().parse(pp)
    out = []
    for ext in ast.ext:
        if isinstance(ext, c_ast.Decl) and "extern" in (ext.storage or []) and ext.name:
            names, _ = _type_names(ext.type)
            out.append((ext.name, ctype_of(names), isinstance(ext.type, c_ast.PtrDecl)))
    return out
