"""Drive /repo's compiler and read back its output (descriptors + kernels)."""

from __future__ import annotations

import importlib
import io
import logging

import numpy as np

from .cfront import Module, parse_c
from .poly import KsymError

ITYPES = ["cell", "exterior_facet", "interior_facet", "vertex", "ridge"]
# ufcx.h cell type enum, used by ufcx_integral.domain
UFCX_CELL = {10: "interval", 20: "triangle", 30: "quadrilateral", 40: "tetrahedron", 50: "hexahedron",
             60: "vertex", 70: "prism", 80: "pyramid"}
CELL_ENUM_NAMES = {"interval": 10, "triangle": 20, "quadrilateral": 30, "tetrahedron": 40, "hexahedron": 50,
                   "vertex": 60, "prism": 70, "pyramid": 80}


class Rejected(Exception):
    """FFCx raised a Python exception for this input (analysis / IR / code generation)."""


def compile_objects(objs, options: dict | None = None, prefix: str = "vf", object_names=None):
    """Run the real compiler; returns (code tuple, suffixes)."""
    import ffcx.compiler
    import ffcx.options

    opts = ffcx.options.get_options(dict(options or {}))
    logging.getLogger("ffcx").setLevel(logging.ERROR)
    try:
        code, sfx = ffcx.compiler.compile_ufl_objects(list(objs), options=opts, object_names=object_names or {}, namespace=prefix)
    except (KeyboardInterrupt, SystemExit):
        raise
    except BaseException as e:  # UFL's ArityMismatch derives from BaseException
        raise Rejected(f"{type(e).__name__}: {str(e)[:200]}") from e
    return code, sfx


def compile_c(objs, options=None, prefix="vf", object_names=None):
    o = dict(options or {})
    o["language"] = "C"
    code, sfx = compile_objects(objs, o, prefix, object_names)
    return code[0], code[1]


def compile_numba(objs, options=None, prefix="vf", object_names=None):
    o = dict(options or {})
    o["language"] = "numba"
    code, sfx = compile_objects(objs, o, prefix, object_names)
    return code[0]


def deref(m: Module, v):
    """Follow ("ref"/"addr", name) to the named global's initialiser."""
    while isinstance(v, tuple) and v and v[0] in ("ref", "addr"):
        name = v[1]
        if name == "NULL":
            return None
        if name in m.globals:
            v = m.globals[name]
        else:
            return ("sym", name)
    return v


def refname(v):
    if isinstance(v, tuple) and v and v[0] in ("ref", "addr"):
        return v[1]
    return None


class FormDesc:
    def __init__(self, m: Module, name: str):
        g = m.globals[name]
        self.name = name
        self.raw = g
        self.rank = g["rank"]
        self.num_coefficients = g["num_coefficients"]
        self.num_constants = g["num_constants"]
        self.signature = g["signature"]
        self.ocp = deref(m, g["original_coefficient_positions"]) or []
        self.offsets = deref(m, g["form_integral_offsets"])
        self.ids = deref(m, g["form_integral_ids"]) or []
        ints = deref(m, g["form_integrals"]) or []
        self.integral_names = [refname(x) for x in ints]
        self.coefficient_names = deref(m, g["coefficient_name_map"]) or []
        self.constant_names = deref(m, g["constant_name_map"]) or []
        self.constant_ranks = deref(m, g["constant_ranks"]) or []
        cs = deref(m, g["constant_shapes"]) or []
        self.constant_shapes = [deref(m, x) if x is not None else None for x in cs]
        self.fe_hashes = deref(m, g["finite_element_hashes"]) or []

    def kernels_for(self, itype: str, sid: int):
        t = ITYPES.index(itype)
        lo, hi = self.offsets[t], self.offsets[t + 1]
        return [self.integral_names[k] for k in range(lo, hi) if self.ids[k] == sid]

    def entries(self):
        out = []
        for t, it in enumerate(ITYPES):
            for k in range(self.offsets[t], self.offsets[t + 1]):
                out.append((it, self.ids[k], self.integral_names[k]))
        return out


class IntegralDesc:
    def __init__(self, m: Module, name: str):
        g = m.globals[name]
        self.name = name
        self.raw = g
        self.enabled = deref(m, g["enabled_coefficients"]) or []
        self.needs_perm = bool(g["needs_facet_permutations"])
        self.ce_hash = g["coordinate_element_hash"]
        dom = g["domain"]
        import basix

        self.domain = basix.CellType(int(dom)).name  # ufcx_integral.domain = basix cell type of the integration entity
        self.tt = {}
        for st in ("float32", "float64", "complex64", "complex128"):
            v = g.get(f"tabulate_tensor_{st}")
            n = refname(v)
            self.tt[st] = None if (n in (None, "NULL") or v is None or v == 0) else n
        self.kernel_name = next((v for v in self.tt.values() if v), None)


def form_descs(m: Module):
    return [FormDesc(m, n) for n, t in m.global_types.items() if t == "ufcx_form" and n in m.globals and isinstance(m.globals[n], dict)]


def integral_descs(m: Module):
    return {n: IntegralDesc(m, n) for n, t in m.global_types.items() if t == "ufcx_integral" and isinstance(m.globals.get(n), dict)}


def expression_descs(m: Module):
    return {n: m.globals[n] for n, t in m.global_types.items() if t == "ufcx_expression" and isinstance(m.globals.get(n), dict)}
