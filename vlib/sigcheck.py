"""C13: JIT signatures separate different inputs / are stable across processes.

Solver-decided part: evaluation points enter the hashed pre-image through a decimal rendering; the
number of significant digits D of that rendering is read off the real pre-image (hashlib recorder
inside ffcx.naming) and a QF_LIA query per (binade, decade) segment decides whether two different
doubles can share a rendering (sha1 is assumed injective on the pre-image).  Witnesses are replayed
through the real compute_signature AND the real code generator (the generated tables must differ).
Enumerated (bounded, no solver; stated as such): sensitivity of the pre-image to every option,
compile flag and scalar type; distinct valid identifiers inside a module; stability of names across
subprocesses with different hash seeds / UFL counter offsets (sampling)."""

from __future__ import annotations

import hashlib
import itertools
import math
import os
import re
import subprocess
import sys
import time
from fractions import Fraction as F

import numpy as np
import z3


class Recorder:
    """Stand-in for hashlib inside ffcx.naming that records the pre-image."""

    def __init__(self):
        self.pre = []

    def sha1(self, data=b""):
        self.pre.append(bytes(data))
        return hashlib.sha1(data)

    def __getattr__(self, k):
        return getattr(hashlib, k)


def preimage(objs, tag="t"):
    import ffcx.naming as naming

    rec = Recorder()
    saved = naming.hashlib
    naming.hashlib = rec
    try:
        sig = naming.compute_signature(objs, tag)
    finally:
        naming.hashlib = saved
    return sig, rec.pre[-1].decode("utf-8")


def _expr_with_points(pts):
    import basix.ufl
    import ufl

    global _EXPR
    try:
        e = _EXPR
    except NameError:
        m = ufl.Mesh(basix.ufl.element("Lagrange", "triangle", 1, shape=(2,)))
        f = ufl.Coefficient(ufl.FunctionSpace(m, basix.ufl.element("Lagrange", "triangle", 2)))
        e = _EXPR = f
    return (e, np.asarray(pts, dtype=np.float64))


def points_digits():
    """Significant digits with which a coordinate appears in the real pre-image (None = exact)."""
    probes = [0.12345678901234567, 0.33333333333333331, 0.7000000000000001]
    ds = []
    for x in probes:
        _, pre = preimage([_expr_with_points([[x, 0.25]])])
        best = None
        for D in range(1, 18):
            txt = f"{x:.{D}g}"
            if txt in pre:
                best = D
        if best is None:
            return None, pre
        exact = repr(x) in pre
        ds.append(17 if exact else best)
    return min(ds), None


def seg_collision(e, d, digits):
    """exists two different doubles in binade e / decade d with the same `digits`-digit rounding?"""
    lo = max(F(2) ** e, F(10) ** d)
    hi = min(F(2) ** (e + 1), F(10) ** (d + 1))
    if lo >= hi:
        return None
    ulp = F(2) ** (e - 52)
    q = F(10) ** (d - (digits - 1))
    n, n2, m = z3.Ints("n n2 m")
    s = z3.Solver()
    s.set("timeout", 20000)

    def R(fr):
        return z3.RealVal(str(fr.numerator)) / z3.RealVal(str(fr.denominator))

    x, y, dec = z3.ToReal(n) * R(ulp), z3.ToReal(n2) * R(ulp), z3.ToReal(m) * R(q)
    s.add(n >= 2 ** 52, n < 2 ** 53, n2 >= 2 ** 52, n2 < 2 ** 53, n != n2)
    s.add(x >= R(lo), x < R(hi), y >= R(lo), y < R(hi))
    s.add(dec - x < R(q / 2), x - dec < R(q / 2), dec - y < R(q / 2), y - dec < R(q / 2))
    t0 = time.time()
    r = str(s.check())
    w = None
    if r == "sat":
        mm = s.model()
        w = (float(F(mm[n].as_long()) * ulp), float(F(mm[n2].as_long()) * ulp))
    return r, w, time.time() - t0


def replay_points(x1, x2, quiet=False):
    """Two expressions that differ only in one evaluation coordinate: same name? different code?"""
    import ffcx.naming as naming
    from . import gen

    o1, o2 = _expr_with_points([[x1, 0.25]]), _expr_with_points([[x2, 0.25]])
    s1, s2 = naming.compute_signature([o1], "tag"), naming.compute_signature([o2], "tag")
    c1 = gen.compile_c([o1], prefix="p")[1]
    c2 = gen.compile_c([o2], prefix="p")[1]
    strip = lambda c: re.sub(r"[0-9a-f]{40}", "H", c)
    same_name = s1 == s2
    diff_code = strip(c1) != strip(c2)
    if not quiet:
        print(f"points x={x1!r} and x={x2!r}: signatures {'EQUAL' if same_name else 'differ'} ({s1[:12]} / {s2[:12]}); generated code {'DIFFERS' if diff_code else 'is identical'}")
        print("REPRODUCED" if same_name and diff_code else "not reproduced")
    return same_name and diff_code


def check_points(chk, tier):
    D, dbg = points_digits()
    chk.extra["points_digits_in_preimage"] = D
    if D is None:
        chk.inconc("evaluation points do not appear as decimal renderings in the signature pre-image; the digit model does not apply")
        return
    binades = list(range(-6, 3)) if tier == "quick" else list(range(-40, 11))
    found = None
    nseg = 0
    for e in binades:
        dlo = math.floor(math.log10(2) * e) - 1
        for d in range(dlo, dlo + 3):
            res = seg_collision(e, d, D)
            if res is None:
                continue
            nseg += 1
            r, w, dt = res
            chk.q("Q-lia-points", r, dt)
            chk.cases.append(f"points-segment:e={e}:d={d}")
            if r == "sat" and found is None and 0.0 < w[0] < 1.0 and 0.0 < w[1] < 1.0:
                found = w
            elif r not in ("sat", "unsat"):
                chk.inconc(f"points segment e={e} d={d}: {r}")
    chk.extra["points_segments"] = nseg
    chk.sample({"query": f"exists doubles x != x' in one binade/decade with the same {D}-significant-digit rendering", "digits read from the real pre-image": D})
    if found:
        x1, x2 = found
        if replay_points(x1, x2, quiet=True):
            src = ("#!/verif/.venv/bin/python\nimport sys\nsys.path[:0]=['/verif','/repo']\nfrom vlib import sigcheck\n"
                   f"sys.exit(1 if sigcheck.replay_points({x1!r}, {x2!r}) else 0)\n")
            chk.violation("sig:points-precision", f"expressions evaluated at x={x1!r} and x={x2!r} get the same signature (points enter the hash with {D} significant digits) but different generated tables", src)
        else:
            chk.inconc(f"points collision {found}: not reproduced through compute_signature + code generation")
    # vacuity twin: with 3 digits a collision must be found, with 17 none
    chk.twins_run += 1
    a = seg_collision(-1, -1, 3)
    b = seg_collision(-1, -1, 17)
    if a and a[0] == "sat" and b and b[0] == "unsat":
        chk.twins_ok += 1
    else:
        chk.harness_error(f"points collision encoding twin failed: {a} {b}")


def check_sensitivity(chk, tier):
    """Bounded enumeration: every option / flag / scalar type / kind changes the module name."""
    import ffcx.codegeneration.jit as jit
    import ffcx.options

    from . import corpus

    form = corpus.build("poisson_P1_coef_triangle")
    base = ffcx.options.get_options({})
    variants = {
        "epsilon": [1e-14, 1e-13, 1.0000000000000002e-14],
        "scalar_type": ["float64", "float32", "complex128", "complex64"],
        "sum_factorization": [False, True],
        "table_rtol": [1e-6, 1e-5, 1.0000000000000002e-06],
        "table_atol": [1e-9, 1e-8],
        "part": ["full", "diagonal"],
        "language": ["C", "numba"],
    }
    n = 0
    for key, vals in variants.items():
        names = {}
        for v in vals:
            p = dict(base)
            p[key] = v
            tag = jit._compute_option_signature(p) + jit._compilation_signature([], False)
            import ffcx.naming as naming

            names[repr(v)] = naming.compute_signature([form], tag)
            n += 1
        chk.cases.append(f"sensitivity:{key}")
        if len(set(names.values())) != len(vals):
            chk.violation(f"sig:option-ignored:{key}", f"module name does not depend on option {key}: {names}", None)
    import ffcx.naming as naming

    tags = {(tuple(a), d): jit._compilation_signature(list(a), d) for a in [(), ("-O2",), ("-O3",), ("-O2", "-g")] for d in (False, True)}
    if len(set(tags.values())) != len(tags):
        chk.violation("sig:compile-flags-ignored", f"compilation signature does not separate flag sets: {tags}", None)
    chk.extra["sensitivity_evaluations"] = n + len(tags)


def check_identifiers(chk, tier):
    from . import cfront, corpus, gen

    ident = re.compile(r"^[A-Za-z_][A-Za-z0-9_]*$")
    for name in ["multi_ids_triangle", "coef_subset_per_integral", "multi_ids_tuple_scheme", "ds_prism"]:
        form = corpus.build(name)
        form2 = corpus.build("mass_P1_triangle")
        h, c = gen.compile_c([form, form2], prefix="mod")
        m = cfront.parse_c(c)
        names = list(m.kernels) + [n for n in m.order if n in m.globals]
        chk.cases.append(f"identifiers:{name}")
        if len(names) != len(set(names)):
            dup = sorted({n for n in names if names.count(n) > 1})
            chk.violation(f"sig:duplicate-object-name:{name}", f"module defines {dup[:3]} more than once", None)
        bad = [n for n in names if not ident.match(n)]
        if bad:
            chk.violation(f"sig:invalid-identifier:{name}", f"object names {bad[:3]} are not valid C identifiers", None)
        chk.extra["identifiers_checked"] = chk.extra.get("identifiers_checked", 0) + len(names)


STAB = r'''
import sys, json
sys.path.insert(0, sys.argv[1])
import numpy as np, basix.ufl, ufl
import ffcx.naming, ffcx.options, ffcx.codegeneration.jit as jit
off = int(sys.argv[2])
m0 = ufl.Mesh(basix.ufl.element("Lagrange", "triangle", 1, shape=(2,)))
for _ in range(off):
    ufl.Coefficient(ufl.FunctionSpace(m0, basix.ufl.element("Lagrange", "triangle", 1))); ufl.Constant(m0)
    ufl.Mesh(basix.ufl.element("Lagrange", "triangle", 1, shape=(2,)))
m = ufl.Mesh(basix.ufl.element("Lagrange", "triangle", 1, shape=(2,)))
V = ufl.FunctionSpace(m, basix.ufl.element("Lagrange", "triangle", 1))
order = sys.argv[3]
if order == "a":
    f = ufl.Coefficient(V); g = ufl.Coefficient(V); k = ufl.Constant(m)
else:
    k = ufl.Constant(m); g0 = ufl.Coefficient(V); f = ufl.Coefficient(V); g = ufl.Coefficient(V)
u, v = ufl.TrialFunction(V), ufl.TestFunction(V)
a = k * f * g * ufl.inner(ufl.grad(u), ufl.grad(v)) * ufl.dx + f * u * v * ufl.ds(3)
p = ffcx.options.get_options({})
tag = jit._compute_option_signature(p) + jit._compilation_signature(["-O1", "-g0", "-Wall", "-fno-math-errno"], False)
mod = "libffcx_forms_" + ffcx.naming.compute_signature([a], tag)
k2 = ufl.Constant(m)
e = (k * f * ufl.grad(g) + k2 * g * ufl.grad(f), np.array([[0.25, 0.5], [0.1, 0.2]]))
out = {"module": mod, "form": ffcx.naming.form_name(a, 0, mod), "integral": ffcx.naming.integral_name(a, "cell", 0, ("otherwise",), mod),
       "expr_module": "libffcx_expressions_" + ffcx.naming.compute_signature([e], tag), "expr": ffcx.naming.expression_name(e, "x")}
print(json.dumps(out))
'''


def check_stability(chk, tier):
    """Sampling (outside the solver claim): same request in subprocesses with different hash
    seeds, UFL counter offsets and creation orders."""
    import json

    from concurrent.futures import ThreadPoolExecutor

    runs = []
    # counter offsets include the values around which the decimal rendering of consecutive UFL counts changes
    # length (8,9,10 / 98,99,100 / 998,999): a name may depend on counts only through renderings or comparisons of them
    cfgs = [("0", 0, "a"), ("1", 7, "a"), ("12345", 3, "b"), ("0", 8, "a"), ("7", 9, "a"), ("0", 10, "b"), ("3", 98, "a"), ("0", 99, "a"), ("0", 999, "a")] if tier == "quick" else \
        [(str(s), o, w) for s in (0, 1, 99, 12345) for o in (0, 5, 8, 9, 10, 31, 98, 99, 100, 998, 999) for w in ("a", "b")]

    def one(cfg):
        seed, off, order = cfg
        return subprocess.run(["/venv/bin/python", "-c", STAB, os.environ.get("VERIF_REPO", "/repo"), str(off), order], capture_output=True, text=True,
                              env=dict(os.environ, PYTHONHASHSEED=seed, PYTHONPATH=""))

    with ThreadPoolExecutor(12) as ex:
        outs = list(ex.map(one, cfgs))
    for r in outs:
        if r.returncode:
            chk.harness_error(f"stability subprocess failed: {r.stderr[-300:]}")
            return
        runs.append(json.loads(r.stdout.strip().splitlines()[-1]))
    chk.cases.append("stability")
    chk.extra["stability_subprocesses"] = len(runs)
    for k in runs[0]:
        vals = {r[k] for r in runs}
        if len(vals) != 1:
            chk.violation(f"sig:unstable:{k}", f"{k} name differs between processes building the same request (hash seed / UFL counter offset / creation order): {sorted(vals)[:2]}", None)


# ---------------------------------------------------------------------------
# History independence of names inside one process (bounded enumeration of histories under an
# adversarial environment for id(); not solver-decided - stated as such in the evidence).


class IdEnv:
    """Stand-in for the builtin id() as seen by ffcx's modules.  Contract of id(): unique among
    simultaneously live objects, arbitrary otherwise.  This environment makes the choice the
    contract allows that is worst for a memo keyed by id(): an object gets the identity of an
    object that has died (refcount shows that only this table still holds it)."""

    def __init__(self):
        self.slots = []  # strong references; slot index + base = identity

    def __call__(self, obj):
        n = len(self.slots)
        for i in range(n):
            if self.slots[i] is obj:
                return 1000 + i
        for i in range(n):
            o = self.slots[i]
            dead = o is None or sys.getrefcount(o) <= 3  # the slots list + local o + getrefcount's argument
            del o
            if dead:
                self.slots[i] = obj
                return 1000 + i
        self.slots.append(obj)
        return 1000 + n


def _pool_request(i):
    """Request number i of the pool, built from fresh UFL objects on every call."""
    import basix.ufl
    import ufl

    m = ufl.Mesh(basix.ufl.element("Lagrange", "triangle", 1, shape=(2,)))
    V = ufl.FunctionSpace(m, basix.ufl.element("Lagrange", "triangle", 1))
    x = ufl.SpatialCoordinate(m)
    pts = np.array([[0.25, 0.5], [0.1, 0.2]])
    if i < 4:
        return "expr", (float(2 + i) * x[0], pts)
    if i == 4:
        f, g = ufl.Coefficient(V), ufl.Coefficient(V)
        return "expr", (f * ufl.grad(g)[0], pts)
    if i == 5:
        f = ufl.Coefficient(V)
        return "expr", (f * x[1], pts)
    u, v = ufl.TrialFunction(V), ufl.TestFunction(V)
    if i == 6:
        return "form", 2.0 * u * v * ufl.dx
    if i == 7:
        return "form", 3.0 * u * v * ufl.dx
    f = ufl.Coefficient(V)
    return "form", f * u * v * ufl.dx


POOL = 9


def _names_of(i):
    import gc

    import ffcx.naming as naming

    kind, obj = _pool_request(i)
    out = {"module": naming.compute_signature([obj], "tag")}
    if kind == "expr":
        out["object"] = naming.expression_name(obj, "p")
    else:
        out["object"] = naming.form_name(obj, 0, "p")
        out["integral"] = naming.integral_name(obj, "cell", 0, ("otherwise",), "p")
    del obj
    gc.collect()
    return out


def _with_idenv(fn):
    env = IdEnv()
    mods = [m for n, m in list(sys.modules.items()) if n == "ffcx" or n.startswith("ffcx.")]
    for m in mods:
        m.__dict__["id"] = env
    try:
        return fn()
    finally:
        for m in mods:
            m.__dict__.pop("id", None)


HIST = r'''
import sys, json
sys.path[:0] = [sys.argv[1], sys.argv[2]]
import ffcx.naming, ffcx.codegeneration.jit
from vlib import sigcheck
hist = [int(t) for t in sys.argv[3].split(",")]
print(json.dumps(sigcheck._with_idenv(lambda: [sigcheck._names_of(i) for i in hist])))
'''


def _run_history(hist):
    import json

    r = subprocess.run([sys.executable, "-W", "ignore", "-c", HIST, "/verif", os.environ.get("VERIF_REPO", "/repo"), ",".join(map(str, hist))],
                       capture_output=True, text=True, env=dict(os.environ, PYTHONPATH=""))
    if r.returncode:
        raise RuntimeError(r.stderr[-400:])
    return json.loads(r.stdout.strip().splitlines()[-1])


def replay_history(hist, quiet=False):
    base = {i: _run_history([i])[0] for i in set(hist)}
    got = _run_history(hist)
    bad = [(k, i) for k, i in enumerate(hist) if got[k] != base[i]]
    if not quiet:
        for k, i in bad:
            print(f"request #{i} named after history {hist[:k]}: {got[k]}\n   same request named first in a fresh process: {base[i]}")
        print("REPRODUCED" if bad else "not reproduced")
    return bool(bad)


def check_history(chk, tier):
    from concurrent.futures import ThreadPoolExecutor

    n = POOL
    hists = [[i] for i in range(n)] + [[i, j] for i in range(n) for j in range(n) if i != j]
    if tier != "quick":
        hists += [[i, j, k] for i in range(n) for j in range(n) for k in range(n) if len({i, j, k}) == 3 and (i + 2 * j + 3 * k) % 5 == 0]
    with ThreadPoolExecutor(14) as ex:
        try:
            outs = list(ex.map(_run_history, hists))
        except RuntimeError as e:
            chk.harness_error(f"history subprocess failed: {e}")
            return
    base = {h[0]: o[0] for h, o in zip(hists, outs) if len(h) == 1}
    chk.cases.append("history")
    chk.extra["histories"] = len(hists)
    # different requests of the pool never share a name (fresh processes)
    for key in ("module", "object"):
        vals = [base[i][key] for i in range(n)]
        if len(set(vals)) != n:
            chk.violation(f"sig:pool-collision:{key}", f"different requests share a {key} name in fresh processes: {vals}", None)
    reported = False
    for h, o in zip(hists, outs):
        for k, i in enumerate(h):
            if o[k] != base[i] and not reported:
                if replay_history(h, quiet=True):
                    src = ("#!/verif/.venv/bin/python\nimport sys\nsys.path[:0]=['/verif','/repo']\nfrom vlib import sigcheck\n"
                           f"sys.exit(1 if sigcheck.replay_history({h!r}) else 0)\n")
                    chk.violation("sig:history-dependent", f"the name of pool request #{i} depends on what the process named before it (history {h[:k]}, id() reusing identities of dead objects): {o[k]} vs {base[i]} in a fresh process", src)
                    reported = True
                else:
                    chk.inconc(f"history {h}: name difference not reproduced")
    chk.sample({"history": hists[n], "names": outs[n], "id() environment": "identities of dead objects are reused (allowed by the contract of id)"})
