"""Stand-alone replays used by the scripts written under /verif/replays."""

from __future__ import annotations

import numpy as np


def replay_form(p: dict) -> int:
    if p.get("kind") == "purity":
        from .kernelprops import replay_purity

        return replay_purity(p)
    if p.get("kind") == "kvk":
        from .kvk import replay_kvk

        return replay_kvk(p)
    if p.get("kind") == "poison":
        from .packing import replay_poison

        return replay_poison(p)
    if p.get("kind") == "exactq":
        from .exactq import replay_exact

        return replay_exact(p)
    if p.get("kind") == "expr":
        from .exprcheck import replay_expr

        return replay_expr(p)
    if p.get("kind") == "numbering":
        from .numbering import numbering_case

        r = numbering_case(p["name"], {"tier": "quick"})
        for v in r["violations"][:3]:
            print(v["key"], "::", v["what"])
        print("REPRODUCED" if r["violations"] else "not reproduced on this tree")
        return 1 if r["violations"] else 0
    if p.get("kind") == "builds":
        from .validc import replay_builds

        return replay_builds(p)
    if p.get("kind") == "rejection":
        from .validc import replay_rejection

        return replay_rejection(p)
    if p.get("kind") == "expr_purity":
        from .exprcheck import replay_expr_purity

        return replay_expr_purity(p)
    if p.get("kind") == "multimod":
        from .multimod import replay_multimod

        return replay_multimod(p)
    if p.get("kind") == "permflag":
        from .kernelprops import replay_permflag

        return replay_permflag(p)
    if p.get("kind") == "bounds":
        from .kernelprops import replay_bounds

        return replay_bounds(p)
    from . import cfront, corpus, gen, ksym, uflref, formcheck
    from .poly import Ctx, CPoly

    name, spec = p["name"], p["spec"]
    entry = corpus.REG[name]
    scalar = spec.get("scalar") or entry.get("scalar", "float64")
    options = dict(spec.get("options") or {})
    options["scalar_type"] = scalar
    form = corpus.build(name)
    h, c = gen.compile_c([form], options)
    m = cfront.parse_c(c)
    fd = gen.form_descs(m)[0]
    ids = gen.integral_descs(m)
    fref = uflref.FormRef(form, scalar)
    lib = ksym.build_so(c, "r")
    itd = next(d for d in fref.fd.integral_data if d.integral_type == p["itype"] and p["sid"] in formcheck.sid_list(d))
    nw, nc, nx, shape, nA, width, cel = formcheck.kernel_layout(fref, itd)
    kns = fd.kernels_for(p["itype"], p["sid"])
    kn = p["kernel"] if p["kernel"] in kns else kns[0]
    kerns = [m.kernels[ids[k].tt[scalar]] for k in kns if ids[k].domain == ids[kn].domain]
    kern = kerns[0]
    ctx = Ctx()
    inp = uflref.Inputs(ctx, nw, nc, nx, fref.complex_mode)
    ents = tuple(p["ents"])
    facet_cell = ids[kn].domain if p["itype"] in ("exterior_facet", "interior_facet") else None
    R = {}
    for d_ in fref.fd.integral_data:
        if d_.integral_type == p["itype"] and p["sid"] in formcheck.sid_list(d_):
            R = uflref.av_add(uflref.AV(R), uflref.AV(uflref.integrate_group(ctx, inp, fref, d_, entities=ents, kernel_facet_cell=facet_cell))).d
    zero = CPoly(ctx.const(0), ctx.const(0)) if fref.complex_mode else ctx.const(0)
    Rf = formcheck.to_flat(R, shape, nA, zero)
    env = {k: float(v) for k, v in p["env"].items()}
    for v in ctx.vars:
        if v.defn is None:
            env.setdefault(v.name, 0.0)
    w, cc, x = ksym.pack(inp, env)
    Ac = None
    for k_ in kerns:
        Ac = ksym.call_c_kernel(lib, k_, nA, w, cc, x, ents, (0, 0), A0=Ac)
    lab = p["entry"]
    idx = int(lab.split(".")[0])
    kval = Ac[idx]
    rv = Rf[idx]
    rval = complex(rv.eval(env)) if isinstance(rv, CPoly) else rv.eval(env)
    if lab.endswith(".im"):
        kval, rval = kval.imag, rval.imag
    elif lab.endswith(".re"):
        kval, rval = kval.real, rval.real
    print(f"form={name} integral=({p['itype']},{p['sid']}) entities={ents} entry A[{lab}]")
    print(f"  compiled kernel value : {kval!r}")
    print(f"  form value (oracle)   : {rval!r}")
    print(f"  tolerance             : {p['tol']}")
    bad = abs(kval - rval) > p["tol"]
    print("  REPRODUCED" if bad else "  not reproduced on this tree")
    return 1 if bad else 0
