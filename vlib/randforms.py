"""Grammar-based random UFL forms (deterministic in (seed, index)): widens the bounded corpus of
programs beyond the hand-written shapes.  Every generated form goes through the same
kernel-vs-oracle pipeline; forms FFCx/UFL reject are listed as outside."""

from __future__ import annotations

import random

seed_version = 2  # 2: shaped/mixed/Piola argument spaces and test != trial spaces

import basix
import basix.ufl
import ufl
from ufl import avg, conditional, div, dot, ds, dS, dx, grad, inner, jump, lt

from .corpus import GD, mesh, space


def name_of(seed, i, cplx=False):
    return f"{'randc' if cplx else 'rand'}:{seed}:{i}"


class Gen:
    def __init__(self, seed, i, cplx=False):
        self.r = random.Random(seed * 1000003 + i * 7919 + (17 if not cplx else 40017))
        self.info = {}
        self.cplx = cplx

    def pick(self, xs, w=None):
        return self.r.choices(list(xs), weights=w)[0] if w else self.r.choice(list(xs))

    def build(self):
        r = self.r
        cell = self.pick(["interval", "triangle", "quadrilateral", "tetrahedron"], [2, 6, 3, 1])
        gdeg = 2 if (cell == "triangle" and r.random() < 0.12) else 1
        m = mesh(cell, gdeg=gdeg)
        gd = GD[cell]
        itype = self.pick(["cell", "exterior_facet", "interior_facet"], [5, 2, 3 if cell != "tetrahedron" else 1])
        arity = self.pick([0, 1, 2], [2, 4, 3])
        quad = cell == "quadrilateral"
        fam = lambda: self.pick([("Q" if quad else "Lagrange", 1), ("DQ" if quad else "DG", 1), ("DQ" if quad else "DG", 0), ("Lagrange", 2)] if not quad else [("Q", 1), ("DQ", 1), ("DQ", 0)])
        # coefficient pool
        ncoef = r.randint(0, 3)
        coefs = []
        for _ in range(ncoef):
            fm, dg = fam()
            if dg == 2 and cell == "tetrahedron":
                dg = 1
            shp = (gd,) if (r.random() < 0.25 and gd > 1 and dg >= 1) else None
            coefs.append(ufl.Coefficient(space(m, fm, dg, shape=shp)))
        consts = []
        for _ in range(r.randint(0, 2)):
            shp = self.pick([(), (gd,), (2, 2), (2, 3, 2), (2, 2, 2, 2)], [5, 2, 2, 2, 1])
            if seed_version >= 2 and len(shp) == 2 and r.random() < 0.6:
                shp = self.pick([(3, 2), (2, 1), (1, 3), (4, 3)])
            consts.append(ufl.Constant(m, shape=shp))
        fmA, dgA = fam()
        if itype == "interior_facet" and fmA in ("Lagrange", "Q") and r.random() < 0.5:
            fmA = "DQ" if quad else "DG"
            dgA = 1
        if dgA == 2 and (cell == "tetrahedron" or arity == 2 and cell != "interval"):
            dgA = 1
        V = space(m, fmA, dgA)
        Vu = V
        self.shaped = None
        rs = r.random()  # (drawn unconditionally so that the stream of later choices is stable)
        if seed_version >= 2 and rs < 0.3 and cell in ("triangle", "quadrilateral", "interval", "tetrahedron"):
            # shaped / mixed / Piola argument spaces (macro layouts of non-trivial elements), possibly test != trial
            from .corpus import _ek_space
            kinds = {"interval": ["P1xDG0"], "triangle": ["TH", "P1xDG0", "vP1xP1xDG0", "RTxDG0", "RT", "N1curl", "sym", "tensor", "MINI", "vDG1"],
                     "quadrilateral": ["P1xDG0", "sym", "vDG1"], "tetrahedron": ["P1xDG0", "RT", "vDG1"]}[cell]
            kd = self.pick(kinds)
            if kd in ("TH", "tensor", "vP1xP1xDG0") and arity == 2:
                kd = "P1xDG0"
            V = Vu = _ek_space(m, kd)
            self.shaped = kd
        elif seed_version >= 2 and rs < 0.42 and arity == 2 and not quad:
            Vu = space(m, "DG" , 1) if fmA != "DG" or dgA != 1 else space(m, "Lagrange", 1)
            self.shaped = "test!=trial"
        u, v = ufl.TrialFunction(Vu), ufl.TestFunction(V)
        x = ufl.SpatialCoordinate(m)
        n = ufl.FacetNormal(m) if itype != "cell" else None
        self.info = {"cell": cell, "gdeg": gdeg, "itype": itype, "arity": arity, "coefficients": ncoef, "constants": len(consts), "argument": self.shaped or f"{fmA}{dgA}"}

        def restrict(e):
            if itype != "interior_facet":
                return e
            return self.pick([lambda a: a("+"), lambda a: a("-"), avg])(e)

        def scal_atom():
            kinds = ["lit", "x"]
            if coefs:
                kinds += ["coef", "coef", "dcoef"]
            if consts:
                kinds += ["const"]
            if n is not None:
                kinds += ["normal"]
            if gdeg == 1 and cell in ("triangle", "tetrahedron", "interval"):
                kinds += ["h"]
            if self.cplx:
                kinds += ["clit"]
            k = self.pick(kinds)
            if k == "clit":
                return ufl.as_ufl(self.pick([1.0 + 2.0j, -0.5j, 2.0 - 1.0j]))
            if k == "lit":
                return ufl.as_ufl(self.pick([0.5, 2.0, -1.5, 3.0]))
            if k == "x":
                return restrict(x[r.randrange(gd)])
            if k == "coef":
                f = self.pick(coefs)
                return restrict(f[r.randrange(gd)] if f.ufl_shape else f)
            if k == "dcoef":
                f = self.pick(coefs)
                el = f.ufl_function_space().ufl_element()
                if el.embedded_superdegree == 0:
                    return restrict(f[0] if f.ufl_shape else f)
                g = grad(f)
                idx = tuple(r.randrange(s) for s in g.ufl_shape)
                return restrict(g[idx])
            if k == "const":
                c = self.pick(consts)
                return c[tuple(r.randrange(s) for s in c.ufl_shape)] if c.ufl_shape else c
            if k == "normal":
                nn = n("+") if itype == "interior_facet" else n
                return nn[r.randrange(gd)]
            if k == "h":
                q = self.pick([ufl.CellVolume(m), ufl.Circumradius(m), ufl.CellDiameter(m)] + ([ufl.FacetArea(m)] if itype != "cell" and cell != "interval" else []))
                return restrict(q) if not isinstance(q, ufl.classes.FacetArea) else q
            raise ValueError(k)

        def scal(depth):
            if depth == 0 or r.random() < 0.3:
                return scal_atom()
            if self.cplx:
                op = self.pick(["add", "mul", "sub", "conj", "real", "imag", "abs", "neg", "condc", "pow2"], [4, 5, 2, 2, 2, 2, 1, 1, 1, 1])
                a = scal(depth - 1)
                if op == "add":
                    return a + scal(depth - 1)
                if op == "mul":
                    return a * scal(depth - 1)
                if op == "sub":
                    return a - scal(depth - 1)
                if op == "conj":
                    return ufl.conj(a)
                if op == "real":
                    return ufl.real(a)
                if op == "imag":
                    return ufl.imag(a)
                if op == "abs":
                    return abs(a)
                if op == "neg":
                    return -a
                if op == "pow2":
                    return a ** 2
                return conditional(lt(ufl.real(a), ufl.real(scal_atom())), scal(depth - 1), self.pick([1.5, ufl.as_ufl(1.0j)]))
            op = self.pick(["add", "mul", "sub", "div", "pow", "abs", "sqrt", "exp", "cond", "max", "neg"], [4, 5, 2, 1, 2, 1, 1, 1, 1, 1, 1])
            a = scal(depth - 1)
            if op in ("add", "mul", "sub", "div", "max"):
                b = scal(depth - 1)
                return {"add": a + b, "mul": a * b, "sub": a - b, "div": a / (b * b + 1.0), "max": ufl.max_value(a, b)}[op]
            if op == "pow":
                return a ** self.pick([2, 3, -1, -2])
            if op == "abs":
                return abs(a)
            if op == "sqrt":
                return ufl.sqrt(a * a + 0.5)
            if op == "exp":
                return ufl.exp(a)
            if op == "neg":
                return -a
            if op == "cond":
                return conditional(lt(a, scal_atom()), scal(depth - 1), 1.5)
            raise ValueError(op)

        def cplx_term(S):
            """sesquilinear term: inner(S * trial-part, test-part) (UFL conjugates the test side)"""
            def one(a):
                el = a.ufl_function_space().ufl_element()
                if el.embedded_superdegree >= 1 and r.random() < 0.4:
                    return restrict(grad(a)[r.randrange(gd)])
                return restrict(a)
            if arity == 0:
                return S
            if u.ufl_shape or v.ufl_shape:
                one_ = one
                def one(a):
                    a = restrict(a)
                    return a[tuple(r.randrange(n_) for n_ in a.ufl_shape)] if a.ufl_shape else a
            z = self.pick([1, 1, ufl.as_ufl(2.0 + 3.0j), ufl.as_ufl(-1.0j)])
            if arity == 1:
                return inner(S, z * one(v))
            return inner(S * one(u), z * one(v))

        def argpart():
            if arity == 0:
                return 1
            if u.ufl_shape or v.ufl_shape:
                def comp(a):
                    a = restrict(a)
                    return a[tuple(r.randrange(n_) for n_ in a.ufl_shape)] if a.ufl_shape else a
                if arity == 1:
                    return comp(v)
                if r.random() < 0.5 and u.ufl_shape == v.ufl_shape:
                    return inner(restrict(u), restrict(v))
                return comp(u) * comp(v)
            def one(a):
                el = a.ufl_function_space().ufl_element()
                if el.embedded_superdegree >= 1 and r.random() < 0.4:
                    return restrict(grad(a)[r.randrange(gd)])
                return restrict(a)
            if arity == 1:
                return one(v)
            if r.random() < 0.3 and V.ufl_element().embedded_superdegree >= 1:
                return inner(restrict(grad(u)), restrict(grad(v)))
            return one(u) * one(v)

        def measure():
            md = {}
            if r.random() < 0.55:
                md["quadrature_degree"] = self.pick([0, 1, 2, 3, 4])
            if r.random() < 0.08 and itype == "cell" and cell in ("interval", "quadrilateral"):
                md["quadrature_rule"] = "GLL"
                md.setdefault("quadrature_degree", 2)
            sid = self.pick([None, None, 1, 2, (1, 2)])
            M = {"cell": dx, "exterior_facet": ds, "interior_facet": dS}[itype]
            kw = {"metadata": md} if md else {}
            return M(sid, domain=m, **kw) if sid is not None else M(domain=m, **kw)

        nterms = self.pick([1, 2, 3], [4, 3, 1])
        form = None
        last = None
        for _ in range(nterms):
            if last is not None and r.random() < 0.35:
                integrand = last  # the same integrand again under (possibly) different metadata / subdomain
            elif self.cplx:
                integrand = cplx_term(scal(r.randint(0, 2)))
            else:
                integrand = scal(r.randint(0, 2)) * argpart()
            last = integrand
            t = integrand * measure()
            form = t if form is None else form + t
        return form


def build(name):
    kind, seed, i = name.split(":")
    return Gen(int(seed), int(i), cplx=(kind == "randc")).build()


def describe(name):
    kind, seed, i = name.split(":")
    g = Gen(int(seed), int(i), cplx=(kind == "randc"))
    try:
        f = g.build()
        s = str(f)
        return {"name": name, **g.info, "form": s[:300]}
    except BaseException as e:
        return {"name": name, "error": f"{type(e).__name__}: {e}"[:200]}
