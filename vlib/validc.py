"""C19: accepted input always yields valid C; rejected input fails before the compiler."""

from __future__ import annotations

import itertools
import re
import subprocess
import time
import traceback
from pathlib import Path

import numpy as np
import z3

from . import cfront, corpus, gen


# ---------------------------------------------------------------------------
# 1. table-name builder: template inferred by probing the real function, injectivity by z3 strings


def psi_template():
    """Run the real generate_psi_table_name on sentinel arguments and recover the concatenation
    template [(literal | slot name)]."""
    import ffcx.ir.elementtables as et

    class Rule:
        def id(self):
            return "zqz"

    sent = {"n": 7131, "c": 8353, "d0": 4, "d1": 5, "d2": 6}
    name = et.generate_psi_table_name(Rule(), sent["n"], None, "cell", (sent["d0"], sent["d1"], sent["d2"]), sent["c"])
    tmpl = name
    for k, v in sent.items():
        if tmpl.count(str(v)) != 1:
            return None, name
        tmpl = tmpl.replace(str(v), "{" + k + "}")
    if tmpl.count("zqz") != 1:
        return None, name
    tmpl = tmpl.replace("zqz", "{q}")
    parts = re.split(r"(\{[a-z0-9]+\})", tmpl)
    return [p for p in parts if p], name


def _smt2_for_template(parts, bound_digits):
    L = ['(set-logic QF_SLIA)', '(set-option :produce-models true)',
         '(define-fun intre () RegLan (re.union (str.to_re "0") (re.++ (re.range "1" "9") (re.* (re.range "0" "9")))))',
         '(define-fun digit () RegLan (re.range "0" "9"))',
         '(define-fun hex3 () RegLan ((_ re.loop 3 3) (re.union (re.range "0" "9") (re.range "a" "f"))))']
    slots = [p[1:-1] for p in parts if p.startswith("{")]
    for t in ("1", "2"):
        for k in slots:
            v = f"{k}_{t}"
            L.append(f"(declare-const {v} String)")
            if k == "q":
                L.append(f"(assert (str.in_re {v} hex3))")
            elif k.startswith("d") and bound_digits:
                L.append(f"(assert (str.in_re {v} digit))")
            else:
                L.append(f"(assert (str.in_re {v} intre))")
                L.append(f"(assert (<= (str.len {v}) 4))")

    def cat(t):
        return "(str.++ " + " ".join((f"{p[1:-1]}_{t}" if p.startswith("{") else '"' + p + '"') for p in parts) + ")"

    L.append(f"(assert (= {cat('1')} {cat('2')}))")
    L.append("(assert (or " + " ".join(f"(not (= {k}_1 {k}_2))" for k in slots) + "))")
    L.append("(check-sat)")
    getv = "(get-value (" + " ".join(f"{k}_{t}" for t in ("1", "2") for k in slots) + "))"
    return "\n".join(L) + "\n", slots, getv


def _run_smt(path):
    """Both solvers that decide this family (cvc5 1.0.3 and z3 4.8.12 binaries); any `(error` is inconclusive."""
    outs = {}
    for name, cmd in (("cvc5", ["cvc5", "--strings-exp", "--tlimit=60000", str(path)]), ("z3-4.8", ["/usr/bin/z3", "-T:60", str(path)])):
        try:
            r = subprocess.run(cmd, capture_output=True, text=True, timeout=90)
            out = r.stdout + r.stderr
        except Exception as e:
            out = f"(error {e})"
        first = out.strip().splitlines()[0].strip() if out.strip() else "unknown"
        if first not in ("sat", "unsat"):
            first = "unknown"
        elif "(error" in out and first == "unsat":
            first = "unknown"
        outs[name] = (first, out)
    return outs


def psi_injective(chk):
    parts, raw = psi_template()
    if parts is None:
        chk.inconc(f"table-name template could not be inferred from {raw!r}")
        return
    d = Path("/verif/.work/validc")
    d.mkdir(parents=True, exist_ok=True)
    for bound_digits in (True, False):
        text, slots, getv = _smt2_for_template(parts, bound_digits)
        f = d / f"psi_{'b' if bound_digits else 'u'}.smt2"
        f.write_text(text)
        t0 = time.time()
        outs = _run_smt(f)
        verdicts = {k: v[0] for k, v in outs.items()}
        decided = {v for v in verdicts.values() if v != "unknown"}
        r = decided.pop() if len(decided) == 1 else ("unknown" if not decided else "disagree")
        if r == "sat":
            f.write_text(text + getv + "\n")
            outs = _run_smt(f)
        chk.q("Q-string", r, time.time() - t0)
        chk.extra.setdefault("string_solver_verdicts", []).append({"bounded_derivative_digits": bound_digits, **verdicts})
        chk.cases.append(f"psi-name-injective:derivative-counts-{'<=9' if bound_digits else 'unbounded'}")
        if r == "disagree":
            chk.harness_error(f"string solvers disagree on the table-name query: {verdicts}")
        elif bound_digits:
            if r == "sat":
                vals = dict(re.findall(r'\((\w+) "([^"]*)"\)', next(o for v, o in outs.values() if v == "sat")))
                a = {k: vals.get(f"{k}_1", "0") for k in slots}
                b = {k: vals.get(f"{k}_2", "0") for k in slots}
                if replay_psi(a, b, quiet=True):
                    chk.violation("names:psi-table-collision", f"generate_psi_table_name gives one name for {a} and {b}", None)
                else:
                    chk.inconc(f"psi name collision {a} / {b} not reproduced")
            elif r != "unsat":
                chk.inconc(f"psi name injectivity: {r}")
        else:
            chk.extra["psi_name_ambiguous_beyond_9_derivatives"] = (r == "sat")
            # vacuity twin of the encoding: with multi-digit derivative counts the concatenation IS
            # ambiguous (D112 = (1,12) or (11,2)) and the query must find it
            chk.twins_run += 1
            if r == "sat":
                chk.twins_ok += 1
            else:
                chk.inconc(f"psi name twin (unbounded derivative digits) returned {r}")
    chk.sample({"template": "".join(parts), "query": "two argument tuples (canonical integer renderings, 3-hex rule id) with equal concatenation", "solvers": "cvc5 1.0.3 --strings-exp and z3 4.8.12 (z3 5.1 times out on this family)"})


def replay_psi(a, b, quiet=False):
    import ffcx.ir.elementtables as et

    def name(d):
        class Rule:
            def id(self_):
                return d["q"]

        return et.generate_psi_table_name(Rule(), int(d["n"]), None, "cell", (int(d["d0"]), int(d["d1"]), int(d["d2"])), int(d["c"]))

    return name(a) == name(b)


# ---------------------------------------------------------------------------
# 2. quadrature rule ids


def rule_id_collisions(tier):
    """Real QuadratureRule.id() for every rule of a cell type; colliding pairs by z3 Distinct."""
    import basix
    from ffcx.ir.representationutils import QuadratureRule, create_quadrature_points_and_weights

    out = []
    cells = ["interval", "triangle", "quadrilateral", "tetrahedron", "hexahedron"] if tier == "thorough" else ["interval", "triangle", "tetrahedron"]
    maxdeg = 30 if tier == "thorough" else 30
    for cell in cells:
        ids = {}
        ct = basix.CellType[cell]
        rules = []
        for scheme in ["default", "GLL", "Gauss-Jacobi"]:
            for deg in range(0, maxdeg + 1):
                try:
                    p, w = basix.make_quadrature(ct, deg, rule=basix.quadrature.string_to_type(scheme))
                except Exception:
                    continue
                rules.append((scheme, deg, np.asarray(p), np.asarray(w)))
        seen_pts = {}
        for scheme, deg, p, w in rules:
            q = QuadratureRule(p, w)
            hash(q)
            key = p.tobytes()
            if key in seen_pts:
                continue
            seen_pts[key] = (scheme, deg)
            ids.setdefault(q.id(), []).append((scheme, deg, len(w)))
        # solver step: ids as integers must be pairwise distinct
        s = z3.Solver()
        vs = []
        for i, (rid, lst) in enumerate(ids.items()):
            for j, it in enumerate(lst):
                v = z3.Int(f"id_{i}_{j}")
                s.add(v == int(rid, 16))
                vs.append(v)
        s.add(z3.Not(z3.Distinct(*vs)) if len(vs) > 1 else z3.BoolVal(False))
        r = str(s.check())
        for rid, lst in ids.items():
            if len(lst) > 1:
                out.append((cell, rid, lst))
        yield cell, r, len(vs), [x for x in out if x[0] == cell]


def replay_rule_collision(cell, r1, r2, quiet=False):
    """f dx(rule1) + g dx(rule2): does the emitted module compile?"""
    import basix.ufl
    import ufl

    m = corpus.mesh(cell)
    V = corpus.space(m)
    f, g = ufl.Coefficient(V), ufl.Coefficient(V)
    v = ufl.TestFunction(V)
    md1 = {"quadrature_degree": r1[1]}
    md2 = {"quadrature_degree": r2[1]}
    if r1[0] != "default":
        md1["quadrature_rule"] = r1[0]
    if r2[0] != "default":
        md2["quadrature_rule"] = r2[0]
    form = f * v * ufl.dx(metadata=md1) + g * v * ufl.dx(metadata=md2)
    try:
        h, c = gen.compile_c([form])
    except gen.Rejected as e:
        if not quiet:
            print("rejected by FFCx:", e)
        return False, "rejected"
    ok, err = gcc_compiles(c)
    if not quiet:
        print(f"{cell}: dx({r1}) + dx({r2}) -> gcc {'ok' if ok else 'FAILS: ' + err[:300]}")
        print("REPRODUCED" if not ok else "not reproduced")
    return (not ok), err


def gcc_compiles(c_text, extra=()):
    d = Path("/verif/.work/validc")
    d.mkdir(parents=True, exist_ok=True)
    import hashlib

    h = hashlib.sha1(c_text.encode()).hexdigest()[:12]
    f = d / f"m_{h}.c"
    f.write_text(c_text)
    r = subprocess.run(["gcc", "-std=c17", "-c", "-Wall", "-Werror=implicit-function-declaration", "-Werror=uninitialized", "-I" + cfront.UFCX_DIR, *extra, str(f), "-o", str(d / f"m_{h}.o")], capture_output=True, text=True)
    f.unlink(missing_ok=True)
    (d / f"m_{h}.o").unlink(missing_ok=True)
    errs = "\n".join(l for l in r.stderr.splitlines() if "error" in l)
    return r.returncode == 0, errs


# ---------------------------------------------------------------------------
# 3. every accepted corpus form builds


def builds_case(name, spec):
    res = {"name": name, "queries": {}, "violations": [], "harness": [], "inconclusive": [], "outside": [], "samples": [], "extra": {"modules_built": 0}}
    try:
        entry = corpus.REG[name]
        for scalar in spec.get("scalars", ["float64"]):
            form = corpus.build(name)
            opts = dict(spec.get("options") or {}, scalar_type=scalar)
            try:
                h, c = gen.compile_c([form], opts)
            except gen.Rejected as e:
                res["outside"].append(f"{name} [{scalar}]: rejected by FFCx before the C compiler: {e}")
                continue
            ok, err = gcc_compiles(c)
            res["extra"]["modules_built"] += 1
            if not ok:
                res["violations"].append({"key": f"{name}:{scalar}:does-not-compile", "what": f"accepted form produces C that gcc rejects: {err[:300]}",
                                          "replay": {"kind": "builds", "name": name, "options": opts}})
            else:
                # the executor's own scope/declaration monitors (redeclaration in one scope, use before declaration)
                try:
                    cfront.parse_c(c)
                except Exception as e:
                    res["inconclusive"].append(f"{name} [{scalar}]: front-end: {e}")
        res["samples"].append({"form": name})
    except Exception as e:
        res["harness"].append(f"{name}: {type(e).__name__}: {e} {traceback.format_exc()[-600:]}")
    return res


def builds_expr_case(name, spec):
    """Every expression of the C04 corpus that FFCx accepts must give C that gcc builds."""
    from . import exprcheck

    res = {"name": name, "queries": {}, "violations": [], "harness": [], "inconclusive": [], "outside": [], "samples": [], "extra": {"modules_built": 0}}
    try:
        for scalar in spec.get("scalars", ["float64"]):
            expr, pts = exprcheck.EXPRS[name]["build"]()
            opts = dict(spec.get("options") or {}, scalar_type=scalar)
            try:
                h, c = gen.compile_c([(expr, np.asarray(pts, dtype=float))], opts)
            except gen.Rejected as e:
                res["outside"].append(f"{name} [{scalar}]: rejected by FFCx before the C compiler: {e}")
                continue
            ok, err = gcc_compiles(c)
            res["extra"]["modules_built"] += 1
            if not ok:
                res["violations"].append({"key": f"expr:{name}:{scalar}:does-not-compile", "what": f"accepted expression produces C that gcc rejects: {err[:300]}",
                                          "replay": {"kind": "builds", "name": name, "options": opts, "expr": True}})
        res["samples"].append({"expression": name})
    except RecursionError:
        res["outside"].append(f"{name}: expression too deep (RecursionError inside UFL/FFCx lowering) - not analysed")
    except Exception as e:
        res["harness"].append(f"{name}: {type(e).__name__}: {e} {traceback.format_exc()[-600:]}")
    return res


def replay_builds(p):
    if p.get("expr"):
        from . import exprcheck

        expr, pts = exprcheck.EXPRS[p["name"]]["build"]()
        form = (expr, np.asarray(pts, dtype=float))
    else:
        form = corpus.build(p["name"])
    h, c = gen.compile_c([form], p["options"])
    ok, err = gcc_compiles(c)
    print("gcc:", "ok" if ok else err)
    print("REPRODUCED" if not ok else "not reproduced")
    return 0 if ok else 1


# ---------------------------------------------------------------------------
# 4. unsupported constructs must raise (or, if accepted, be right)


def rejection_candidates():
    import basix.ufl
    import ufl
    from ufl import TestFunction, TrialFunction, dx, ds, dS, grad, inner

    tri = corpus.mesh("triangle")
    V = corpus.space(tri)
    u, v = TrialFunction(V), TestFunction(V)
    f = ufl.Coefficient(V)
    k = ufl.Constant(tri)
    out = []
    out.append(("vertex_integral_discontinuous", lambda: ([ufl.Coefficient(corpus.space(tri, "DG", 1)) * v * ufl.dP], {}), "must_reject"))
    out.append(("negative_subdomain_id", lambda: ([u * v * dx(-3)], {}), "must_reject"))
    out.append(("sum_factorization_on_simplex", lambda: ([u * v * dx], {"sum_factorization": True}), "may_reject"))
    out.append(("diagonal_different_spaces", lambda: ([TrialFunction(corpus.space(tri, deg=2)) * v * dx], {"part": "diagonal"}), "must_reject"))
    out.append(("complex_unconjugated_test", lambda: ([f * v * dx], {"scalar_type": "complex128"}), "must_reject"))
    out.append(("nonlinear_in_argument", lambda: ([u * u * v * dx], {}), "must_reject"))
    pr = corpus.mesh("prism")
    Vp = corpus.space(pr)
    out.append(("prism_interior_facet", lambda: ([ufl.jump(TrialFunction(Vp)) * ufl.jump(TestFunction(Vp)) * dS], {}), "may_reject"))
    pts = np.array([[0.25, 0.25], [0.5, 0.1]])
    out.append(("expression_affine_in_argument", lambda: ([(k * grad(f) + ufl.Coefficient(corpus.space(tri, shape=(2,))) * u, pts)], {}), "must_reject"))
    out.append(("expression_two_arguments", lambda: ([(u * v, pts)], {}), "may_reject"))
    qe = basix.ufl.quadrature_element("triangle", (), degree=2)
    out.append(("quadrature_element_derivative", lambda: ([inner(grad(ufl.Coefficient(ufl.FunctionSpace(tri, qe))), grad(v)) * dx], {}), "must_reject"))
    out.append(("zero_form", lambda: ([0 * u * v * dx], {}), "must_reject"))
    return out


def rejection_case(name, spec):
    res = {"name": name, "queries": {}, "violations": [], "harness": [], "inconclusive": [], "outside": [], "samples": [], "extra": {}}
    try:
        cand = {n: (b, k) for n, b, k in rejection_candidates()}
        build, kind = cand[name]
        try:
            objs, opts = build()
        except BaseException as e:
            res["samples"].append({"construct": name, "outcome": f"UFL itself refuses to build it: {type(e).__name__}"})
            return res
        try:
            h, c = gen.compile_c(objs, opts)
        except gen.Rejected as e:
            res["samples"].append({"construct": name, "outcome": f"rejected: {e}"[:200]})
            return res
        ok, err = gcc_compiles(c)
        if not ok:
            res["violations"].append({"key": f"reject:{name}:invalid-c", "what": f"unsupported construct {name} is accepted and produces C that does not compile: {err[:200]}", "replay": None})
            return res
        if kind == "must_reject":
            detail = ""
            if name == "expression_affine_in_argument":
                detail = affine_expression_detail(objs, c)
            res["violations"].append({"key": f"reject:{name}:accepted", "what": f"construct {name}, which FFCx cannot represent, is accepted and compiles silently{detail}", "replay": {"kind": "rejection", "name": name}})
        else:
            res["samples"].append({"construct": name, "outcome": "accepted (correctness is C01-C04's subject)"})
    except Exception as e:
        res["harness"].append(f"{name}: {type(e).__name__}: {e} {traceback.format_exc()[-600:]}")
    return res


def affine_expression_detail(objs, c):
    """Show that the argument-free part k*grad(f) left no trace in the kernel: no read of c[] at all."""
    m = cfront.parse_c(c)
    from .kernelprops import _free_ids

    k = next(iter(m.kernels.values()))
    used = _free_ids(k.body)
    return f": the kernel {'does not read' if 'c' not in used else 'reads'} the constant k although the expression k*grad(f) + g*u depends on it (the argument-free term is dropped)"


def replay_rejection(p):
    r = rejection_case(p["name"], {})
    for v in r["violations"]:
        print(v["what"])
    print("REPRODUCED" if r["violations"] else "not reproduced")
    return 1 if r["violations"] else 0
