"""Parallel driver: run corpus forms through a worker function and merge into a Check."""

from __future__ import annotations

import json
import os
from concurrent.futures import ProcessPoolExecutor, as_completed

from .common import Check

REPLAY_TMPL = '''#!/verif/.venv/bin/python
"""Replay of a solver-found counterexample against the real build (gcc) of the kernel that
/repo's compiler emits now.  Prints kernel value, oracle value and the verdict."""
import sys, json
sys.path[:0] = ["/verif", "/repo"]
from vlib import replay
sys.exit(replay.replay_form(json.loads(r\'\'\'{payload}\'\'\')))
'''


def _call(fn_mod, fn_name, name, spec):
    import importlib

    mod = importlib.import_module(fn_mod)
    return getattr(mod, fn_name)(name, spec)


def run_cases(chk: Check, fn_mod: str, fn_name: str, names, spec_for, jobs: int = 14):
    """spec_for: callable name -> spec dict, or a dict used for all."""
    results = {}
    jobs = max(1, min(jobs, len(names) or 1))
    with ProcessPoolExecutor(max_workers=jobs) as ex:
        futs = {}
        for n in names:
            spec = spec_for(n) if callable(spec_for) else spec_for
            futs[ex.submit(_call, fn_mod, fn_name, n, spec)] = n
        for f in as_completed(futs):
            n = futs[f]
            try:
                results[n] = f.result()
            except (KeyboardInterrupt, SystemExit):
                raise
            except BaseException as e:  # worker crashed
                results[n] = {"name": n, "harness": [f"{n}: worker failed: {type(e).__name__}: {e}"]}
    for n in names:
        merge(chk, results[n])
    return results


def merge(chk: Check, r: dict):
    chk.merge_queries(r.get("queries", {}), r.get("solver_s", 0.0))
    chk.programs += 1
    chk.cases.append(r.get("name"))
    for s in r.get("samples", []):
        chk.sample(s)
    for x in r.get("inconclusive", []):
        chk.inconc(x)
    for x in r.get("outside", []):
        chk.outside.append(x)
    for x in r.get("harness", []):
        chk.harness_error(x)
    chk.twins_run += r.get("twins_run", 0)
    chk.twins_ok += r.get("twins_ok", 0)
    chk.selfval += r.get("selfval", 0)
    vs = r.get("violations", [])
    if len(vs) > 2:
        chk.extra["violations_suppressed_beyond_2_per_program"] = chk.extra.get("violations_suppressed_beyond_2_per_program", 0) + len(vs) - 2
    for v in vs[:2]:
        chk.disagreements_checked += 1
        src = None
        if v.get("replay") is not None:
            src = REPLAY_TMPL.format(payload=json.dumps(v["replay"], default=str))
        chk.violation(v["key"], v["what"], src)
    for k, val in r.get("extra", {}).items():
        if isinstance(val, (int, float)):
            chk.extra[k] = chk.extra.get(k, 0) + val
        elif isinstance(val, list):
            chk.extra.setdefault(k, [])
            if len(chk.extra[k]) < 40:
                chk.extra[k].extend(val[: 40 - len(chk.extra[k])])
