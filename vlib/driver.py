"""Parallel driver: run corpus forms through a worker function and merge into a Check."""

from __future__ import annotations

import json
import os
from concurrent.futures import ProcessPoolExecutor, as_completed

from .common import Check

REPLAY_TMPL = '''#!/verif/.venv/bin/python
"""Replay of a solver-found counterexample against the real build (gcc) of the kernel that
/repo's compiler emits now.  Prints kernel value, oracle value and the verdict."""
import sys, json
sys.path[:0] = ["/verif", "/repo"]
from vlib import replay
sys.exit(replay.replay_form(json.loads(r\'\'\'{payload}\'\'\')))
'''


RERUN_TMPL = '''#!/verif/.venv/bin/python
"""Replay: re-run the analysis of this one case on what /repo's compiler emits now and report
whether the violation with this key is found again (structural facts of the generated text have no
separate concrete input)."""
import sys, json
sys.path[:0] = ["/verif", "/repo"]
from vlib import driver
sys.exit(driver.rerun(json.loads(r\'\'\'{payload}\'\'\')))
'''


def rerun(p):
    r = _call(p["mod"], p["fn"], p["name"], p["spec"])
    hit = [v for v in r.get("violations", []) if v["key"] == p["key"]]
    for v in (hit or r.get("violations", []))[:3]:
        print(v["key"], "::", v["what"])
    for h in r.get("harness", [])[:2]:
        print("harness:", h[:300])
    print("REPRODUCED" if hit else "not reproduced on this tree")
    return 1 if hit else 0


def _call(fn_mod, fn_name, name, spec):
    import importlib

    import time

    from . import poly

    poly.DEADLINE[0] = time.time() + (spec.get("case_budget_s") or (240 if spec.get("tier", "quick") == "quick" else 900))
    mod = importlib.import_module(fn_mod)
    return getattr(mod, fn_name)(name, spec)


def _child(conn, fn_mod, fn_name, name, spec):
    try:
        r = _call(fn_mod, fn_name, name, spec)
    except (KeyboardInterrupt, SystemExit):
        raise
    except Exception as e:
        r = {"name": name, "harness": [f"{name}: worker failed: {type(e).__name__}: {e}"]}
    except BaseException as e:  # noqa: BLE001 (UFL's ArityMismatch & co. derive from BaseException: an explicit rejection by UFL/FFCx)
        r = {"name": name, "outside": [f"{name}: rejected by UFL/FFCx with {type(e).__name__}: {str(e)[:160]} - not analysed"]}
    try:
        conn.send(r)
    except Exception as e:
        conn.send({"name": name, "harness": [f"{name}: result not transferable: {e}"]})
    conn.close()


def run_cases(chk: Check, fn_mod: str, fn_name: str, names, spec_for, jobs: int = 14):
    """One OS process per case (fork), at most `jobs` at a time, each under a hard wall-clock
    limit: a case that hangs inside native code (UFL recursion, a solver) is killed and
    reported as outside the budget instead of blocking the check."""
    import multiprocessing as mp
    import time

    ctx = mp.get_context("fork")
    results = {}
    pending = list(names)
    live = {}
    jobs = max(1, jobs)
    while pending or live:
        while pending and len(live) < jobs:
            n = pending.pop(0)
            spec = spec_for(n) if callable(spec_for) else spec_for
            hard = (spec.get("case_budget_s") or (240 if spec.get("tier", "quick") == "quick" else 900)) + 90
            pc, cc = ctx.Pipe(duplex=False)
            pr = ctx.Process(target=_child, args=(cc, fn_mod, fn_name, n, spec), daemon=True)
            pr.start()
            cc.close()
            live[n] = (pr, pc, time.time() + hard)
        for n, (pr, pc, deadline) in list(live.items()):
            if pc.poll(0):
                try:
                    results[n] = pc.recv()
                except EOFError:
                    pr.join(5)
                    if pr.exitcode is not None and pr.exitcode < 0:
                        results[n] = {"name": n, "outside": [f"{n}: worker process killed by signal {-pr.exitcode} (out of memory / stack overflow in native code) - not analysed"]}
                    else:
                        results[n] = {"name": n, "harness": [f"{n}: worker died without a result (exit code {pr.exitcode})"]}
                pr.join(5)
                del live[n]
            elif not pr.is_alive():
                results[n] = {"name": n, "outside": [f"{n}: worker process died (exit code {pr.exitcode}; e.g. stack overflow inside UFL) - not analysed"]}
                del live[n]
            elif time.time() > deadline:
                pr.kill()
                pr.join(5)
                results[n] = {"name": n, "outside": [f"{n}: killed after the hard wall-clock limit (hang in native code) - not analysed"]}
                del live[n]
        time.sleep(0.02)
    for n in names:
        spec = spec_for(n) if callable(spec_for) else spec_for
        merge(chk, results[n], (fn_mod, fn_name, n, spec))
    return results


def merge(chk: Check, r: dict, origin=None):
    chk.merge_queries(r.get("queries", {}), r.get("solver_s", 0.0))
    chk.programs += 1
    chk.cases.append(r.get("name"))
    for s in r.get("samples", []):
        chk.sample(s)
    for x in r.get("inconclusive", []):
        chk.inconc(x)
    for x in r.get("outside", []):
        chk.outside.append(x)
    for x in r.get("harness", []):
        chk.harness_error(x)
    chk.twins_run += r.get("twins_run", 0)
    chk.twins_ok += r.get("twins_ok", 0)
    chk.selfval += r.get("selfval", 0)
    vs = r.get("violations", [])
    if len(vs) > 2:
        chk.extra["violations_suppressed_beyond_2_per_program"] = chk.extra.get("violations_suppressed_beyond_2_per_program", 0) + len(vs) - 2
    for v in vs[:2]:
        chk.disagreements_checked += 1
        src = None
        if v.get("replay") is not None:
            src = REPLAY_TMPL.format(payload=json.dumps(v["replay"], default=str))
        elif origin is not None:
            src = RERUN_TMPL.format(payload=json.dumps({"mod": origin[0], "fn": origin[1], "name": origin[2], "spec": origin[3], "key": v["key"]}, default=str))
        chk.violation(v["key"], v["what"], src)
    for k, val in r.get("extra", {}).items():
        if isinstance(val, (int, float)):
            chk.extra[k] = chk.extra.get(k, 0) + val
        elif isinstance(val, list):
            chk.extra.setdefault(k, [])
            if len(chk.extra[k]) < 40:
                chk.extra[k].extend(val[: 40 - len(chk.extra[k])])
