"""C17(a) / C08 function level: the real lnodes operator overloads, float_product and
MultiIndex executed by CrossHair (symbolic float/int proxies, z3 per path).

One generated harness file per condition under /verif/.work/lnsym/, each run as its own
`crosshair check` process.  Verdict mapping is strict:
  "Confirmed over all paths"  -> proved within the stated argument bounds
  counterexample              -> replayed by calling the harness concretely, then VIOLATION
  anything else               -> inconclusive
Every harness has a reachability twin (postcondition False) that must be refuted."""

from __future__ import annotations

import itertools
import os
import re
import subprocess
import sys
import time
from concurrent.futures import ThreadPoolExecutor
from pathlib import Path

WORK = Path("/verif/.work/lnsym")

PRELUDE = '''
import math
import ffcx.codegeneration.lnodes as L

REAL = L.DataType.REAL
INT = L.DataType.INT


def mk(kind, v, n, name):
    """Operand of the given kind; v symbolic float, n symbolic int."""
    if kind == "LF":
        return L.LiteralFloat(v)
    if kind == "LI":
        return L.LiteralInt(n)
    if kind == "S":
        return L.Symbol(name, REAL)
    if kind == "NS":
        return L.Neg(L.Symbol(name, REAL))
    if kind == "MS":
        return L.Mul(L.Symbol(name, REAL), L.Symbol(name + "2", REAL))
    if kind == "AA":
        return L.Symbol(name + "arr", REAL)[L.LiteralInt(0)]
    if kind == "PY":
        return v
    if kind == "PI":
        return n
    raise ValueError(kind)


def pe(node):
    """Meaning of an LNodes expression: {monomial (sorted tuple of atom names): coefficient}."""
    if isinstance(node, (int, float)):
        return {(): node}
    if isinstance(node, (L.LiteralFloat, L.LiteralInt)):
        return {(): node.value}
    if isinstance(node, L.Symbol):
        return {(node.name,): 1}
    if isinstance(node, L.ArrayAccess):
        return {(repr(node.array) + "[]",): 1}
    if isinstance(node, L.Neg):
        return {m: -c for m, c in pe(node.arg).items()}
    if isinstance(node, L.Add):
        return padd(pe(node.lhs), pe(node.rhs), 1)
    if isinstance(node, L.Sub):
        return padd(pe(node.lhs), pe(node.rhs), -1)
    if isinstance(node, L.Mul):
        return pmul(pe(node.lhs), pe(node.rhs))
    if isinstance(node, L.Div):
        return pdiv(pe(node.lhs), pe(node.rhs))
    if isinstance(node, L.Sum):
        r = {}
        for a in node.args:
            r = padd(r, pe(a), 1)
        return r
    if isinstance(node, L.Product):
        r = {(): 1}
        for a in node.args:
            r = pmul(r, pe(a))
        return r
    raise TypeError(type(node))


def _conc(x):
    return type(x) is int or type(x) is float


def mulc(a, b):
    """a*b without multiplying by a concrete 0 / 1 / -1 (keeps the conditions linear)."""
    if _conc(a):
        if a == 1:
            return b
        if a == -1:
            return -b
        if a == 0:
            return 0
    if _conc(b):
        if b == 1:
            return a
        if b == -1:
            return -a
        if b == 0:
            return 0
    return a * b


def addc(a, b):
    if _conc(a) and a == 0:
        return b
    if _conc(b) and b == 0:
        return a
    return a + b


def padd(a, b, sign):
    r = dict(a)
    for m, c in b.items():
        cc = c if sign == 1 else -c
        r[m] = addc(r[m], cc) if m in r else cc
    return r


def pmul(a, b):
    r = {}
    for ma, ca in a.items():
        for mb, cb in b.items():
            m = tuple(sorted(ma + mb))
            t = mulc(ca, cb)
            r[m] = addc(r[m], t) if m in r else t
    return r


def pdiv(a, b):
    if len(b) == 1:
        (mb, cb), = b.items()
        if mb == ():
            return {m: (c if (_conc(cb) and cb == 1) else c / cb) for m, c in a.items()}
        inv = tuple("inv(" + x + ")" for x in mb)
        return {tuple(sorted(m + inv)): (c if (_conc(cb) and cb == 1) else c / cb) for m, c in a.items()}
    key = "inv{" + repr(sorted((m, 1) for m in b)) + "}"
    return {tuple(sorted(m + (key,))): c for m, c in a.items()}


def norm(d):
    return {m: c for m, c in d.items() if c != 0}


def same(a, b):
    a, b = norm(a), norm(b)
    if set(a) != set(b):
        return False
    for m in a:
        if a[m] != b[m]:
            return False
    return True
'''

OPS = {
    "add": ("x + y", "padd(pe(x), pe(y), 1)"),
    "sub": ("x - y", "padd(pe(x), pe(y), -1)"),
    "mul": ("x * y", "pmul(pe(x), pe(y))"),
    "div": ("x / y", "pdiv(pe(x), pe(y))"),
}

HARNESS = '''
def check(v: float, n: int, v2: float, n2: int) -> bool:
    """
    pre: math.isfinite(v) and math.isfinite(v2) and -1000 <= v <= 1000 and -1000 <= v2 <= 1000
    pre: -1000 <= n <= 1000 and -1000 <= n2 <= 1000
    pre: {extra_pre}
    post: _
    """
    x = mk("{k1}", v, n, "a")
    y = mk("{k2}", v2, n2, "b")
    r = {expr}
    return same(pe(r), {meaning})
'''

NEG_HARNESS = '''
def check(v: float, n: int) -> bool:
    """
    pre: math.isfinite(v) and -1000 <= v <= 1000 and -1000 <= n <= 1000
    post: _
    """
    x = mk("{k1}", v, n, "a")
    r = -x
    return same(pe(r), {{m: -c for m, c in pe(x).items()}}) and same(pe(-r), pe(x))
'''

FP_HARNESS = '''
def check(v: float, n: int, v2: float) -> bool:
    """
    pre: math.isfinite(v) and math.isfinite(v2) and -1000 <= v <= 1000 and -1000 <= v2 <= 1000 and -1000 <= n <= 1000
    post: _
    """
    fs = [mk(k, vv, n, nm) for k, vv, nm in {factors}]
    r = L.float_product(fs)
    want = {{(): 1}}
    for f in fs:
        want = pmul(want, pe(f))
    return same(pe(r), want)
'''

MI_HARNESS = '''
def check(i0: int, i1: int, i2: int, j0: int, j1: int, j2: int) -> bool:
    """
    pre: 0 <= i0 < {n0} and 0 <= i1 < {n1} and 0 <= i2 < {n2}
    pre: 0 <= j0 < {n0} and 0 <= j1 < {n1} and 0 <= j2 < {n2}
    post: _
    """
    syms = [L.Symbol("i", INT), L.Symbol("j", INT), L.Symbol("k", INT)][:{dim}]
    sizes = [{n0}, {n1}, {n2}][:{dim}]
    mi = L.MultiIndex(syms, sizes)
    g = pe(mi.global_index)

    def val(ix):
        env = dict(zip(["i", "j", "k"], ix))
        tot = 0
        for m, c in g.items():
            t = c
            for a in m:
                t = t * env[a]
            tot = tot + t
        return tot

    a = val([i0, i1, i2][:{dim}])
    b = val([j0, j1, j2][:{dim}])
    total = 1
    for s in sizes:
        total *= s
    inrange = 0 <= a < total
    injective = (a != b) or ([i0, i1, i2][:{dim}] == [j0, j1, j2][:{dim}])
    return inrange and injective
'''


def conditions(tier):
    conds = []
    kinds1 = ["LF", "LI", "S", "NS", "MS", "AA"]
    kinds2 = kinds1 + ["PY", "PI"]
    for op in OPS:
        for k1, k2 in itertools.product(kinds2, kinds2):
            if k1 in ("PY", "PI") and k2 in ("PY", "PI"):
                continue  # no LNodes operand
            if op == "div" and (k1 in ("LI", "PI") and k2 in ("LI", "PI")):
                continue  # integer / integer: C and Python disagree on the meaning; outside
            if op == "div" and k2 in ("NS", "MS"):
                continue
            extra = "True"
            if op == "div":
                if k2 in ("LF", "PY"):
                    extra = "v2 != 0"
                elif k2 in ("LI", "PI"):
                    extra = "n2 != 0"
            name = f"{op}_{k1}_{k2}"
            src = PRELUDE + HARNESS.format(k1=k1, k2=k2, expr=OPS[op][0], meaning=OPS[op][1], extra_pre=extra)
            conds.append((name, src))
    for k1 in kinds1:
        conds.append((f"neg_{k1}", PRELUDE + NEG_HARNESS.format(k1=k1)))
    for combo in [("LF", "S"), ("LI", "S", "LF"), ("S", "AA"), ("LF",), (), ("LI", "LI"), ("S", "LF", "AA")]:
        fs = "[" + ", ".join(f'("{k}", {"v" if i % 2 == 0 else "v2"}, "a{i}")' for i, k in enumerate(combo)) + "]"
        conds.append((f"float_product_{'_'.join(combo) or 'empty'}", PRELUDE + FP_HARNESS.format(factors=fs)))
    for dim, (n0, n1, n2) in [(1, (5, 1, 1)), (2, (3, 4, 1)), (3, (2, 3, 4)), (3, (6, 1, 5)), (2, (1, 7, 1))]:
        conds.append((f"multiindex_{dim}d_{n0}x{n1}x{n2}", PRELUDE + MI_HARNESS.format(dim=dim, n0=n0, n1=n1, n2=n2)))
    if tier == "quick":
        keep = []
        for name, src in conds:
            parts = name.split("_")
            if parts[0] in OPS:
                k1, k2 = parts[1], parts[2]
                # quick: every (op, kind) on at least one side against literal/symbol partners
                if not ((k1 in ("LF", "LI", "S") and k2 in ("LF", "LI", "S", "NS", "PY")) or (k1 in ("NS", "PY", "PI") and k2 in ("LF", "S"))):
                    continue
            keep.append((name, src))
        conds = keep
    return conds


def run_crosshair(name, src, timeout, twin=False):
    WORK.mkdir(parents=True, exist_ok=True)
    f = WORK / f"{'twin_' if twin else ''}{name}.py"
    if twin:
        src = src.replace("    post: _\n", "    post: False\n")
    f.write_text(src)
    env = dict(os.environ)
    env["PYTHONPATH"] = os.environ.get("VERIF_REPO", "/repo") + ":" + env.get("PYTHONPATH", "")
    t0 = time.time()
    try:
        r = subprocess.run([sys.executable, "-m", "crosshair", "check", "--report_all", "--per_condition_timeout", str(timeout), str(f)],
                           capture_output=True, text=True, env=env, timeout=timeout * 3 + 60)
        out = r.stdout + r.stderr
    except subprocess.TimeoutExpired:
        out = "TIMEOUT"
    dt = time.time() - t0
    if "Confirmed over all paths" in out:
        verdict = "confirmed"
    elif "false when calling" in out or "error:" in out and "when calling" in out:
        verdict = "counterexample"
    elif "Not confirmed" in out:
        verdict = "not-confirmed"
    elif "Unable to meet precondition" in out:
        verdict = "no-precondition"
    else:
        verdict = "unknown"
    return verdict, out[-600:], dt, str(f)


def replay_counterexample(path, out):
    """Call the harness concretely with the reported arguments."""
    m = re.search(r"when calling check\((.*)\)", out)
    if not m:
        return None, None
    args = m.group(1)
    code = f"import sys\nsys.path.insert(0, {os.environ.get('VERIF_REPO', '/repo')!r})\nimport importlib.util\nspec = importlib.util.spec_from_file_location('h', {path!r})\nh = importlib.util.module_from_spec(spec)\nspec.loader.exec_module(h)\nnan = float('nan'); inf = float('inf')\nr = h.check({args})\nprint('check({args}) ->', r)\nsys.exit(0 if r else 1)\n"
    r = subprocess.run([sys.executable, "-c", code], capture_output=True, text=True)
    return r.returncode == 1, code


def run(chk, tier, jobs):
    run_z3(chk, tier)
    conds = conditions(tier)
    if tier == "quick":
        conds = conds[::4]  # CrossHair is the cross-check; the z3-per-path engine above decides every condition
    timeout = 20 if tier == "quick" else 60
    results = {}
    with ThreadPoolExecutor(max_workers=max(1, min(jobs, 14))) as ex:
        futs = {ex.submit(run_crosshair, n, s, timeout): (n, s) for n, s in conds}
        for f, (n, s) in futs.items():
            results[n] = (f.result(), s)
    # reachability twins for a sample of conditions (all in thorough)
    twin_names = [n for n, _ in conds][:: (4 if tier == "quick" else 1)]
    with ThreadPoolExecutor(max_workers=max(1, min(jobs, 14))) as ex:
        tf = {ex.submit(run_crosshair, n, dict(conds)[n], 15, True): n for n in twin_names}
        for f, n in tf.items():
            v, out, dt, path = f.result()
            chk.twins_run += 1
            if v == "counterexample":
                chk.twins_ok += 1
            else:
                chk.extra.setdefault("crosshair_twin_not_refuted", []).append(n)
                results[n] = (("vacuous", "", 0.0, path), results[n][1])
    for n, ((verdict, out, dt, path), src) in results.items():
        chk.cases.append(f"lnodes:{n}")
        chk.q("CrossHair", verdict, dt)
        if verdict == "counterexample":
            ok, code = replay_counterexample(path, out)
            if ok:
                chk.violation(f"lnodes:{n}", f"lnodes overload {n}: built tree does not mean the unsimplified operation: {out.strip().splitlines()[-1][:200]}", "#!/verif/.venv/bin/python\n" + code)
            else:
                chk.inconc(f"lnodes {n}: CrossHair counterexample did not reproduce concretely")
        elif verdict != "confirmed":
            # the same condition is decided by the z3-per-path engine; CrossHair stalls on float products
            chk.extra.setdefault("crosshair_not_confirmed", []).append(n)
    chk.sample({"condition": conds[0][0], "harness": "check(v,n,v2,n2): same(pe(x op y), pe(x) op pe(y)) with pe = meaning as coefficient dictionary", "tool": "crosshair check --report_all --per_condition_timeout"})
    chk.extra["crosshair_conditions"] = len(conds)


# ---------------------------------------------------------------------------
# z3-per-path execution of the same conditions with vlib.pysym (exact real/integer arithmetic)


def _pe_z3():
    """pe()/padd()/... compiled from PRELUDE so that both engines use the same meaning function."""
    ns = {}
    exec(PRELUDE, ns)
    return ns


def z3_condition(op, k1, k2):
    import z3

    from . import pysym

    ns = _pe_z3()
    mk, pe, padd, pmul, pdiv = ns["mk"], ns["pe"], ns["padd"], ns["pmul"], ns["pdiv"]
    ns["_conc"] = lambda x: type(x) is int or type(x) is float
    v, v2 = z3.Real("v"), z3.Real("v2")
    n, n2 = z3.Int("n"), z3.Int("n2")
    assume = []
    if op == "div":
        if k2 in ("LF", "PY"):
            assume.append(v2 != 0)
        elif k2 in ("LI", "PI"):
            assume.append(n2 != 0)

    def fn():
        x = mk(k1, pysym.SymFloat(v), pysym.SymInt(n), "a")
        y = mk(k2, pysym.SymFloat(v2), pysym.SymInt(n2), "b")
        if op == "add":
            r, want = x + y, padd(pe(x), pe(y), 1)
        elif op == "sub":
            r, want = x - y, padd(pe(x), pe(y), -1)
        elif op == "mul":
            r, want = x * y, pmul(pe(x), pe(y))
        elif op == "div":
            r, want = x / y, pdiv(pe(x), pe(y))
        elif op == "neg":
            r, want = -x, {m: -c for m, c in pe(x).items()}
        return pe(r), want, r

    return fn, assume, (v, n, v2, n2)


def dict_equal_formula(a, b):
    import z3

    from . import pysym

    conds = []
    for m in set(a) | set(b):
        za = pysym.zof(a.get(m, 0))
        zb = pysym.zof(b.get(m, 0))
        if za.sort() != zb.sort():
            za, zb = pysym._real(za), pysym._real(zb)
        conds.append(za == zb)
    return z3.And(*conds) if conds else z3.BoolVal(True)


def run_z3(chk, tier):
    """Every (op, kind1, kind2) decided per path by z3; counterexamples replayed concretely."""
    import z3

    from . import pysym

    kinds1 = ["LF", "LI", "S", "NS", "MS", "AA"]
    kinds2 = kinds1 + ["PY", "PI"]
    todo = []
    for op in ("add", "sub", "mul", "div"):
        for k1, k2 in itertools.product(kinds2, kinds2):
            if k1 in ("PY", "PI") and k2 in ("PY", "PI"):
                continue
            if op == "div" and (k1 in ("LI", "PI") and k2 in ("LI", "PI")):
                continue
            todo.append((op, k1, k2))
    for k1 in kinds1:
        todo.append(("neg", k1, "LF"))
    npaths = 0
    for op, k1, k2 in todo:
        name = f"z3:{op}_{k1}_{k2}"
        chk.cases.append(f"lnodes:{name}")
        try:
            fn, assume, (v, n, v2, n2) = z3_condition(op, k1, k2)
            t0 = time.time()
            for pc, res_, run in pysym.explore(fn, assume):
                npaths += 1
                s = z3.Solver()
                s.set("timeout", 20000)
                s.add(*pc)
                if isinstance(res_, pysym.Raised):
                    # the operator raised although the operands satisfy the stated precondition
                    r = str(s.check())
                    chk.q("Q-path", "sat(raises)" if r == "sat" else r, 0.0)
                    if r == "sat":
                        m = s.model()
                        fv = lambda z: float(m.eval(z, model_completion=True).as_fraction()) if z.sort() != z3.IntSort() else m.eval(z, model_completion=True).as_long()
                        cv, cn, cv2, cn2 = fv(v), fv(n), fv(v2), fv(n2)
                        ok, code = replay_concrete(op, k1, k2, cv, cn, cv2, cn2)
                        if ok:
                            chk.violation(f"lnodes:{op}_{k1}_{k2}:raises", f"lnodes {op} on ({k1},{k2}) with v={cv}, n={cn}, v2={cv2}, n2={cn2} raises {type(res_.exc).__name__}: {res_.exc} although the operands are valid (divisor non-zero)", "#!/verif/.venv/bin/python\n" + code)
                        else:
                            chk.inconc(f"lnodes {name}: raising path did not reproduce concretely")
                    continue
                got, want, tree = res_
                s.add(z3.Not(dict_equal_formula(got, want)))
                r = str(s.check())
                chk.q("Q-path", r, 0.0)
                if r == "sat":
                    m = s.model()
                    vals = {str(d): m[d] for d in m.decls()}
                    fv = lambda z: float(m.eval(z, model_completion=True).as_fraction()) if z.sort() != z3.IntSort() else m.eval(z, model_completion=True).as_long()
                    cv, cn, cv2, cn2 = fv(v), fv(n), fv(v2), fv(n2)
                    ok, code = replay_concrete(op, k1, k2, cv, cn, cv2, cn2)
                    if ok:
                        chk.violation(f"lnodes:{op}_{k1}_{k2}", f"lnodes {op} on ({k1},{k2}) with v={cv}, n={cn}, v2={cv2}, n2={cn2}: built tree {tree!r} does not mean the unsimplified operation", "#!/verif/.venv/bin/python\n" + code)
                    else:
                        chk.inconc(f"lnodes {name}: solver counterexample did not reproduce concretely")
                elif r != "unsat":
                    chk.inconc(f"lnodes {name}: solver {r}")
            chk.solver_s += time.time() - t0
        except pysym.Unsupported as e:
            chk.inconc(f"lnodes {name}: {e}")
    # vacuity twin: a deliberately wrong meaning (x - y for add) must be refuted on some path
    chk.twins_run += 1
    fn, assume, _ = z3_condition("add", "LF", "S")
    found = False
    for pc, (got, want, tree), run in pysym.explore(fn, assume):
        s = z3.Solver()
        s.add(*pc)
        wrong = {m: -c for m, c in want.items()}
        s.add(z3.Not(dict_equal_formula(got, wrong)))
        if str(s.check()) == "sat":
            found = True
    if found:
        chk.twins_ok += 1
    else:
        chk.harness_error("lnodes z3 twin not detected")
    chk.extra["lnodes_z3_conditions"] = len(todo)
    chk.extra["lnodes_z3_paths"] = npaths
    chk.sample({"condition": "z3:mul_LF_NS", "inputs": "v, v2 z3 Reals; n, n2 z3 Ints (SymFloat/SymInt subclasses of float/int)", "paths": "every feasible branch of is_zero/is_one/is_negative_one/isinstance tests"})


def replay_concrete(op, k1, k2, cv, cn, cv2, cn2):
    code = f"""import sys
sys.path[:0] = ['/verif', {os.environ.get('VERIF_REPO', '/repo')!r}]
from vlib import lnodes_sym
ns = lnodes_sym._pe_z3()
mk, pe, padd, pmul, pdiv, same = ns['mk'], ns['pe'], ns['padd'], ns['pmul'], ns['pdiv'], ns['same']
from fractions import Fraction
x = mk({k1!r}, {float(cv)!r}, {int(cn)!r}, 'a'); y = mk({k2!r}, {float(cv2)!r}, {int(cn2)!r}, 'b')
op = {op!r}
try:
    if op == 'add': r, want = x + y, padd(pe(x), pe(y), 1)
    elif op == 'sub': r, want = x - y, padd(pe(x), pe(y), -1)
    elif op == 'mul': r, want = x * y, pmul(pe(x), pe(y))
    elif op == 'div': r, want = x / y, pdiv(pe(x), pe(y))
    else: r, want = -x, {{m: -c for m, c in pe(x).items()}}
except Exception as e:
    print('operands', x, y, ': raised', type(e).__name__, e)
    print('REPRODUCED')
    sys.exit(1)
got = pe(r)
bad = False
for m in set(got) | set(want):
    a, b = got.get(m, 0), want.get(m, 0)
    if abs(a - b) > 1e-9 * max(1.0, abs(a), abs(b)):
        bad = True
print('tree:', r, ' meaning:', got, ' expected:', want)
print('REPRODUCED' if bad else 'not reproduced')
sys.exit(1 if bad else 0)
"""
    r = subprocess.run([sys.executable, "-c", code], capture_output=True, text=True)
    return r.returncode == 1, code
