"""Shared plumbing for all checks: evidence, findings, verdict bookkeeping."""

from __future__ import annotations

import argparse
import hashlib
import json
import os
import sys
import time
import traceback
from pathlib import Path

VERIF = Path("/verif")
REPO = Path(os.environ.get("VERIF_REPO", "/repo"))  # VERIF_REPO: evaluate a scratch worktree (seeded changes) without touching /repo
WORK = VERIF / ".work"
# VERIF_OUT: write evidence/replays elsewhere (seed sweeps, background runs) so that /verif/evidence only ever holds runs on /repo itself
_OUT = Path(os.environ["VERIF_OUT"]) if os.environ.get("VERIF_OUT") else VERIF
EVID = _OUT / "evidence"
REPLAYS = _OUT / "replays"
KNOWN = VERIF / "known_findings.json"

EXIT_OK, EXIT_VIOLATION, EXIT_HARNESS = 0, 1, 3


def sha256_file(p) -> str:
    return hashlib.sha256(Path(p).read_bytes()).hexdigest()[:16]


def workdir(name: str) -> Path:
    d = WORK / name
    d.mkdir(parents=True, exist_ok=True)
    return d


def parse_args(pid: str):
    ap = argparse.ArgumentParser(prog=f"check {pid}")
    ap.add_argument("--tier", default=os.environ.get("VERIF_TIER", "quick"), choices=["quick", "thorough"])
    ap.add_argument("--only", default=None, help="comma list of case ids (debug)")
    ap.add_argument("--jobs", type=int, default=int(os.environ.get("VERIF_JOBS", "14")))
    ap.add_argument("--replay", default=None)
    return ap.parse_args()


class Check:
    """Collects verdicts for one property run and writes the evidence file."""

    def __init__(self, pid: str, level: str, tier: str):
        self.pid = pid
        self.level = level
        self.tier = tier
        self.seed = int(os.environ.get("VERIF_SEED", "0") or 0)
        self.t0 = time.time()
        self.queries: dict[str, dict[str, int]] = {}
        self.solver_s = 0.0
        self.cases: list = []
        self.samples: list = []
        self.inconclusive: list = []
        self.outside: list = []
        self.violations: list = []  # (key, what, replay_path)
        self.known_hits: list = []
        self.harness_errors: list = []
        self.functions: set = set()
        self.files: set = set()
        self.assumptions: list = []
        self.bounds: dict = {}
        self.extra: dict = {}
        self.twins_run = 0
        self.twins_ok = 0
        self.selfval = 0
        self.programs = 0
        self.disagreements_checked = 0
        try:
            kf = json.loads(KNOWN.read_text())
        except Exception:
            kf = {"findings": []}
        self.known = [f for f in kf.get("findings", []) if f.get("property") == pid and f.get("status", "open") == "open"]

    # -- bookkeeping -----------------------------------------------------
    def q(self, kind: str, verdict: str, secs: float = 0.0, n: int = 1):
        d = self.queries.setdefault(kind, {})
        d[verdict] = d.get(verdict, 0) + n
        self.solver_s += secs

    def merge_queries(self, qd: dict, secs: float = 0.0):
        for k, d in qd.items():
            for v, n in d.items():
                self.q(k, v, 0.0, n)
        self.solver_s += secs

    def encoded(self, *names):
        self.functions.update(names)

    def source(self, *paths):
        for p in paths:
            self.files.add(str(p))

    def sample(self, s):
        if len(self.samples) < 12:
            self.samples.append(s)

    def harness_error(self, what: str):
        self.harness_errors.append(what)
        print(f"HARNESS-ERROR property={self.pid} {what}", flush=True)

    def inconc(self, what):
        self.inconclusive.append(what)

    def violation(self, key: str, what: str, replay_src: str | None = None):
        """Report a *replayed* violation.  key identifies the failing input."""
        for f in self.known:
            if f["key"] == key:
                if key not in [k for k, _ in self.known_hits]:
                    self.known_hits.append((key, f["what"]))
                    print(f"KNOWN-FINDING: property={self.pid} {f['what']} [key={key}]", flush=True)
                return False
        rp = None
        if replay_src is None:
            # fallback replay: re-derive the fact from the current tree by re-running this check and
            # looking for the same violation key
            replay_src = ("#!/verif/.venv/bin/python\n\"\"\"Replay by re-running the check on the current /repo tree and looking for the same violation key.\"\"\"\n"
                          "import subprocess, sys, tempfile, os\n"
                          f"key = {key!r}\n"
                          "out = tempfile.mkdtemp(dir='/verif/.work')\n"
                          f"r = subprocess.run(['/verif/check.sh', {self.pid!r}, {self.tier!r}], capture_output=True, text=True, env=dict(os.environ, VERIF_OUT=out))\n"
                          "hit = [l for l in r.stdout.splitlines() if l.startswith('VIOLATION') and ('key=' + key) in l]\n"
                          "print('\\n'.join(hit[:3]) or 'no violation with this key')\n"
                          "print('REPRODUCED' if hit else 'not reproduced on this tree')\n"
                          "sys.exit(1 if hit else 0)\n")
        if replay_src is not None:
            d = REPLAYS / self.pid
            d.mkdir(parents=True, exist_ok=True)
            h = hashlib.sha1(key.encode()).hexdigest()[:10]
            rp = d / f"{h}.py"
            rp.write_text(replay_src)
        self.violations.append((key, what, str(rp)))
        print(f"VIOLATION property={self.pid} replay={rp} key={key} :: {what}", flush=True)
        return True

    # -- finish ----------------------------------------------------------
    def finish(self, explanation: str = ""):
        wall = time.time() - self.t0
        nq = sum(sum(d.values()) for d in self.queries.values())
        cov = {
            "explanation": explanation,
            "functions_encoded": sorted(self.functions),
            "repo_sources": {p: sha256_file(p) for p in sorted(self.files) if Path(p).exists()},
            "bounds": self.bounds,
            "queries": self.queries,
            "queries_total": nq,
            "solver_s": round(self.solver_s, 3),
            "evaluations": max(nq, len(self.cases), 1),
            "distinct_nontrivial": max(len(set(map(str, self.cases))), 0),
            "rule": "one case = one (program/function instance, query family); non-trivial = at least one solver query with symbolic variables was discharged for it",
            "samples": self.samples or ["(none)"],
            "programs": self.programs,
            "disagreements_checked": self.disagreements_checked,
            "vacuity_twins_run": self.twins_run,
            "vacuity_twins_detected": self.twins_ok,
            "translator_selfvalidations": self.selfval,
            "inconclusive": self.inconclusive[:200],
            "inconclusive_count": len(self.inconclusive),
            "outside_budget": self.outside[:200],
            "known_findings_hit": [k for k, _ in self.known_hits],
            "harness_errors": self.harness_errors[:50],
            "violation_keys": [v[0] for v in self.violations],
        }
        cov.update(self.extra)
        if self.level == "model_checking":
            cov.setdefault("states", 1)
            cov.setdefault("transitions", 1)
            cov.setdefault("traces_validated_against_impl", 0)
        ev = {
            "property_id": self.pid,
            "tier": self.tier,
            "seed": self.seed,
            "level": self.level,
            "coverage": cov,
            "assumptions": self.assumptions,
            "wall_s": round(wall, 2),
            "violations": len(self.violations),
        }
        EVID.mkdir(parents=True, exist_ok=True)
        (EVID / f"{self.pid}.json").write_text(json.dumps(ev, indent=1, default=str))
        status = "VIOLATED" if self.violations else ("HARNESS-ERROR" if self.harness_errors else "held")
        print(
            f"[{self.pid}] {status}: cases={len(self.cases)} queries={nq} {json.dumps(self.queries)} "
            f"inconclusive={len(self.inconclusive)} known={len(self.known_hits)} twins={self.twins_ok}/{self.twins_run} "
            f"solver={self.solver_s:.1f}s wall={wall:.1f}s",
            flush=True,
        )
        if self.violations:
            sys.exit(EXIT_VIOLATION)
        if self.harness_errors:
            sys.exit(EXIT_HARNESS)
        sys.exit(EXIT_OK)


def run_main(fn):
    try:
        fn()
    except SystemExit:
        raise
    except BaseException:
        traceback.print_exc()
        print("HARNESS-ERROR uncaught exception", flush=True)
        sys.exit(EXIT_HARNESS)
