"""C20: command-line compiler: option precedence (real main() + real get_options on symbolic
json values), header/source consistency, same tensors as the JIT path."""

from __future__ import annotations

import json
import os
import subprocess
import sys
import tempfile
import textwrap
import time
from pathlib import Path

import z3

from . import cfront, eqcheck, gen, ksym, pysym, uflref
from .formcheck import FLOOR_STRICT, REL_STRICT, coeff_scale, kernel_layout, sid_list, split_parts, unify
from .poly import CPoly, Ctx

UFL_FILE = '''
import basix.ufl
from ufl import (Coefficient, Constant, FunctionSpace, Mesh, TestFunction, TrialFunction, dx, ds, dS, grad, inner, jump)

e = basix.ufl.element("Lagrange", "triangle", 1)
mesh = Mesh(basix.ufl.element("Lagrange", "triangle", 1, shape=(2,)))
V = FunctionSpace(mesh, e)
u, v = TrialFunction(V), TestFunction(V)
f = Coefficient(V)
k = Constant(mesh)
a = k * f * inner(grad(u), grad(v)) * dx + f * u * v * ds + jump(u) * jump(v) * dS
L = f * v * dx
M = f * f * dx(degree=2)
E = f * grad(f)
m2 = inner(u, v) * dx
c2 = inner(u, v) * dx
L2 = f * v * dx
forms = [a, L, M, m2, c2, L2]
elements = [e]
expressions = [(E, [[0.25, 0.25], [0.5, 0.1]])]
'''


def cli_priority_options(argv):
    """Run the real ffcx.main.main on argv with code generation stubbed out; returns the options
    dict handed to the compiler (so the real argparse + the real filtering line + the real
    get_options are executed)."""
    import ffcx.main as fm

    captured = {}
    saved = (fm.compiler.compile_ufl_objects, fm.ufl.algorithms.load_ufl_file, fm.formatting.write_code)

    class UFD:
        forms, expressions, elements, object_names = [], [], [], {}

    def fake_compile(objs, options=None, **kw):
        captured["options"] = options
        return [], ()

    fm.compiler.compile_ufl_objects = fake_compile
    fm.ufl.algorithms.load_ufl_file = lambda fn: UFD()
    fm.formatting.write_code = lambda *a, **k: None
    try:
        fm.main(list(argv) + ["dummy.py"])
    finally:
        fm.compiler.compile_ufl_objects, fm.ufl.algorithms.load_ufl_file, fm.formatting.write_code = saved
    return captured.get("options")


def precedence(chk):
    """For every option key and every (given on CLI?, in pwd json?, in user json?) combination the
    merged value is decided by z3 for ALL json values."""
    import ffcx.options as fo

    class NoLog:
        def setLevel(self, *a):
            pass

        def info(self, *a):
            pass

    saved = (fo._load_options, fo.logger, fo.pprint)
    fo.logger = NoLog()
    fo.pprint = type("P", (), {"pformat": staticmethod(lambda o: "")})
    cli_nondefault = {"language": "numba", "epsilon": "1e-7", "scalar_type": "float32", "sum_factorization": None, "table_rtol": "0.001",
                      "table_atol": "0.002", "verbosity": "10", "part": "diagonal"}
    # the same option given explicitly with the value that happens to be the built-in default
    cli_default = {k: str(v[1]) for k, v in fo.FFCX_DEFAULT_OPTIONS.items()}
    npaths = 0
    try:
        for cli_values, vtag in ((cli_nondefault, "nondefault"), (cli_default, "default-valued")):
            for key, (typ, default, _, _) in fo.FFCX_DEFAULT_OPTIONS.items():
                for given in (False, True):
                    if vtag == "default-valued" and (not given or isinstance(default, bool)):
                        continue
                    npaths += _precedence_one(chk, fo, key, typ, default, given, cli_values, vtag)
    finally:
        fo._load_options, fo.logger, fo.pprint = saved
    chk.extra["precedence_paths"] = npaths
    chk.sample({"function": "ffcx.main.main -> ffcx.options.get_options", "json values": "z3 Ints (SymInt), presence of the key in each file a z3 Bool",
                "argv": "without --<option>, with a non-default value, with the value equal to the built-in default"})
    # vacuity twin: the reversed precedence (user over pwd) must be refuted
    chk.twins_run += 1
    uv, pv = z3.Int("user_value"), z3.Int("pwd_value")
    s = z3.Solver()
    s.add(uv != pv, z3.If(z3.BoolVal(True), pv, uv) != uv)
    if str(s.check()) == "sat":
        chk.twins_ok += 1


def _precedence_one(chk, fo, key, typ, default, given, cli_values, vtag):
    argv = []
    if given:
        argv = [f"--{key}"] + ([] if isinstance(default, bool) else [cli_values[key]])
    uv, pv = z3.Int("user_value"), z3.Int("pwd_value")
    uh, ph = z3.Bool("user_has"), z3.Bool("pwd_has")

    def fn():
        user, pwd = {}, {}
        if pysym.SymBool(uh):
            user[key] = pysym.SymInt(uv)
        if pysym.SymBool(ph):
            pwd[key] = pysym.SymInt(pv)
        fo._load_options = lambda: (user, pwd)
        return cli_priority_options(argv)

    # json values are distinct from each other and from anything the CLI/default can produce
    assume = [uv >= 1000, pv >= 2000, uv != pv]
    n = 0
    for pc, opts, run in pysym.explore(fn, assume):
        n += 1
        got = opts[key]
        cli_val = typ(cli_values[key]) if (given and not isinstance(default, bool)) else (True if given else None)
        s = z3.Solver()
        s.add(*pc)
        if given:
            ok = (not isinstance(got, (pysym.SymInt, pysym.SymFloat))) and got == cli_val
            bad = z3.BoolVal(not ok)
        elif isinstance(got, pysym.SymInt):
            bad = z3.Or(z3.Not(z3.Or(ph, uh)), got.z != z3.If(ph, pv, uv))
        else:
            # a concrete value: only right if neither json file has the key and it is the default
            bad = z3.Or(ph, uh) if got == default else z3.BoolVal(True)
        s.add(bad)
        r = str(s.check())
        chk.q("Q-path", r)
        chk.cases.append(f"precedence:{key}:cli={given}:{vtag}")
        if r == "sat":
            m = s.model()
            has_u, has_p = z3.is_true(m.eval(uh, model_completion=True)), z3.is_true(m.eval(ph, model_completion=True))
            cd = vtag == "default-valued"
            rep = replay_precedence(key, given, has_u, has_p, default, quiet=True, cli_default=cd)
            what = (f"option {key!r}: command line {'gives it (' + vtag + ' value ' + str(cli_values[key]) + ')' if given else 'does not give it'}, pwd json {'has' if has_p else 'lacks'} it, "
                    f"user json {'has' if has_u else 'lacks'} it, merged value is {got!r}")
            if rep:
                src = ("#!/verif/.venv/bin/python\nimport sys\nsys.path[:0]=['/verif','/repo']\nfrom vlib import clicheck\n"
                       f"sys.exit(1 if clicheck.replay_precedence({key!r}, {given}, {has_u}, {has_p}, {default!r}, cli_default={cd}) else 0)\n")
                chk.violation(f"cli:precedence:{key}:cli={given}({vtag}):pwd={has_p}:user={has_u}", what, src)
            else:
                chk.inconc(f"precedence {key}: solver counterexample not reproduced by the real command line ({what})")
        elif r != "unsat":
            chk.inconc(f"precedence {key}: {r}")
    return n


def replay_precedence(key, given, has_u, has_p, default, quiet=False, cli_default=False):
    """Real `python -m ffcx` in a scratch cwd with json files; reads the option header of the output."""
    vals = {"language": "numba", "epsilon": 1e-5, "scalar_type": "float32", "sum_factorization": True, "table_rtol": 0.01, "table_atol": 0.02, "verbosity": 20, "part": "diagonal"}
    alt = {"language": "C", "epsilon": 1e-6, "scalar_type": "complex128", "sum_factorization": True, "table_rtol": 0.03, "table_atol": 0.04, "verbosity": 40, "part": "full"}
    with tempfile.TemporaryDirectory(dir="/verif/.work") as d:
        d = Path(d)
        (d / "cfg" / "ffcx").mkdir(parents=True)
        if has_u:
            (d / "cfg" / "ffcx" / "ffcx_options.json").write_text(json.dumps({key: alt[key]}))
        if has_p:
            (d / "ffcx_options.json").write_text(json.dumps({key: vals[key]}))
        (d / "poisson.py").write_text(textwrap.dedent('''
            import basix.ufl
            from ufl import FunctionSpace, Mesh, TestFunction, TrialFunction, dx
            cell = "quadrilateral"
            import basix
            e = basix.ufl.wrap_element(basix.create_tp_element(basix.ElementFamily.P, basix.CellType.quadrilateral, 1, basix.LagrangeVariant.gll_warped))
            mesh = Mesh(basix.ufl.blocked_element(e, shape=(2,)))
            V = FunctionSpace(mesh, e)
            u, v = TrialFunction(V), TestFunction(V)
            a = u * v * dx
        '''))
        env = dict(os.environ, XDG_CONFIG_HOME=str(d / "cfg"), PYTHONPATH=os.environ.get("VERIF_REPO", "/repo"))
        argv = []
        cliv = {"language": "numba", "epsilon": "1e-9", "scalar_type": "complex64", "table_rtol": "0.5", "table_atol": "0.25", "verbosity": "10", "part": "diagonal"}
        if cli_default:
            cliv = {"language": "C", "epsilon": "1e-14", "scalar_type": "float64", "table_rtol": "1e-06", "table_atol": "1e-09", "verbosity": "30", "part": "full"}
        if given:
            argv = [f"--{key}"] + ([] if isinstance(default, bool) else [cliv[key]])
        r = subprocess.run(["/venv/bin/python", "-m", "ffcx", *argv, "poisson.py"], cwd=d, env=env, capture_output=True, text=True)
        outs = list(d.glob("poisson.c")) + list(d.glob("poisson_numba.py"))
        if not outs:
            if not quiet:
                print("ffcx failed:", r.stderr[-400:])
            return False
        txt = outs[0].read_text()
        import re

        mm = re.search(rf"'{key}': ([^,\n}}]+)", txt)
        got = mm.group(1).strip() if mm else None
        if given:
            want = repr(True) if isinstance(default, bool) else repr(type(default)(cliv[key]))
        elif has_p:
            want = repr(vals[key])
        elif has_u:
            want = repr(alt[key])
        else:
            want = repr(default)
        bad = got != want
        if not quiet:
            print(f"option {key}: cli given={given}, pwd json={vals[key] if has_p else None}, user json={alt[key] if has_u else None}: generated file says {got}, precedence rule says {want}")
            print("REPRODUCED" if bad else "not reproduced")
        return bad


# ---------------------------------------------------------------------------


def run_cli(workdir: Path, args=()):
    (workdir / "cliform.py").write_text(UFL_FILE)
    import ffcx.main as fm
    import ffcx.options as fo

    fo._load_options.cache_clear() if hasattr(fo._load_options, "cache_clear") else None
    cwd = os.getcwd()
    os.chdir(workdir)
    try:
        rc = fm.main([*args, "cliform.py"])
    finally:
        os.chdir(cwd)
    return rc


PAIR_REPLAY = ("#!/verif/.venv/bin/python\nimport sys\nsys.path[:0]=['/verif','/repo']\nfrom vlib import clicheck\nsys.exit(clicheck.replay_pair())\n")


class _PrintChk:
    """Minimal stand-in for Check used by the stand-alone replay: prints what it is told."""

    def __init__(self):
        self.n = 0
        self.cases, self.extra = [], {}

    def violation(self, key, what, src=None):
        self.n += 1
        print("VIOLATED:", key, "::", what)

    def inconc(self, what):
        print("inconclusive:", what)

    def merge_queries(self, *a):
        pass


def replay_pair():
    """Run the real `ffcx` main on the UFL file in a scratch directory and re-check the pair."""
    c = _PrintChk()
    pair_consistency(c)
    same_as_jit(c, "quick")
    print("REPRODUCED" if c.n else "not reproduced")
    return 1 if c.n else 0


def pair_consistency(chk):
    """Header/source pair written by the real main(): every extern of the header is defined once in
    the source, aliases point at the named objects, the source builds stand-alone."""
    with tempfile.TemporaryDirectory(dir="/verif/.work") as d:
        d = Path(d)
        rc = run_cli(d)
        h, c = (d / "cliform.h").read_text(), (d / "cliform.c").read_text()
        hdr = cfront.parse_header(h)
        m = cfront.parse_c(c)
        nfacts = 0
        for name, ctype, isptr in hdr:
            nfacts += 1
            if name not in m.globals:
                chk.violation(f"cli:header-undefined:{name}", f"header declares `extern {ctype}{'*' if isptr else ''} {name}` but the source does not define it", PAIR_REPLAY)
        defs = [n for n in m.order if n in m.globals]
        if len(defs) != len(set(defs)):
            chk.violation("cli:duplicate-definition", "an object is defined twice in the source", PAIR_REPLAY)
        # aliases
        import re

        forms = {f.name: f for f in gen.form_descs(m)}
        # (m2 / c2 and L / L2 are distinct named forms that are structurally equal: each name needs its alias)
        want_alias = {"form_cliform_a": 2, "form_cliform_L": 1, "form_cliform_M": 0, "form_cliform_m2": 2, "form_cliform_c2": 2, "form_cliform_L2": 1}
        hdr_names = {n for n, _, _ in hdr}
        for alias in list(want_alias) + ["expression_cliform_E"]:
            nfacts += 1
            if alias not in hdr_names:
                chk.violation(f"cli:alias-not-declared:{alias}", f"the UFL file names this object but the header does not declare {alias}", PAIR_REPLAY)
        for alias, rank in want_alias.items():
            nfacts += 1
            tgt = m.globals.get(alias)
            tname = gen.refname(tgt)
            if tname not in forms:
                chk.violation(f"cli:alias:{alias}", f"alias {alias} does not point at a form object ({tgt!r})", PAIR_REPLAY)
            elif forms[tname].rank != rank:
                chk.violation(f"cli:alias-wrong-object:{alias}", f"alias {alias} points at {tname} of rank {forms[tname].rank}, the UFL file's object has rank {rank}", PAIR_REPLAY)
        nfacts += 1
        exprs = gen.expression_descs(m)
        ea = gen.refname(m.globals.get("expression_cliform_E"))
        if ea not in exprs:
            chk.violation("cli:alias:expression_cliform_E", f"expression alias missing or dangling ({ea})", PAIR_REPLAY)
        # stand-alone build against the real ufcx.h
        r = subprocess.run(["gcc", "-std=c17", "-Wall", "-Werror=implicit-function-declaration", "-c", "-I" + cfront.UFCX_DIR, str(d / "cliform.c"), "-o", str(d / "cliform.o")], capture_output=True, text=True)
        nfacts += 1
        if r.returncode:
            chk.violation("cli:source-does-not-compile", f"gcc -c cliform.c failed: {r.stderr[-300:]}", PAIR_REPLAY)
        r = subprocess.run(["gcc", "-std=c17", "-fsyntax-only", "-I" + cfront.UFCX_DIR, "-x", "c", "-"], input='#include "cliform.h"\n', capture_output=True, text=True, cwd=d)
        nfacts += 1
        if r.returncode:
            chk.violation("cli:header-does-not-compile", f"header does not compile stand-alone: {r.stderr[-300:]}", PAIR_REPLAY)
        chk.extra["pair_facts"] = nfacts
        chk.cases.append("pair:cliform")
        return c


def same_as_jit(chk, tier):
    """Kernels written by the CLI vs the kernels the JIT path generates for the same objects."""
    import ffcx.codegeneration.jit as jit
    import ufl

    stats = eqcheck.QStats()
    with tempfile.TemporaryDirectory(dir="/verif/.work") as d:
        d = Path(d)
        run_cli(d)
        c_cli = (d / "cliform.c").read_text()
        m_cli = cfront.parse_c(c_cli)
        ns = {}
        exec(UFL_FILE, ns)
        forms = ns["forms"]
        objs, mod, (decl, impl) = jit.compile_forms(forms, cache_dir=d / "cache")
        m_jit = cfront.parse_c(impl)
        import ffcx.naming

        fc = {f.name: f for f in gen.form_descs(m_cli)}
        fj = {f.name: f for f in gen.form_descs(m_jit)}
        ic, ij = gen.integral_descs(m_cli), gen.integral_descs(m_jit)
        varname = {id(v): k for k, v in ns.items() if not k.startswith("_")}
        for i, form in enumerate(forms):
            fref = uflref.FormRef(form, "float64")
            nm = varname[id(form)]
            a = fc.get(gen.refname(m_cli.globals.get(f"form_cliform_{nm}")))
            b = fj.get(ffcx.naming.form_name(form, i, mod.__name__))
            if a is None or b is None:
                chk.violation(f"cli:form-missing:{nm}", f"form {nm} of the UFL file: {'no object behind form_cliform_' + nm + ' in the CLI source' if a is None else 'JIT module lacks the form object'}", PAIR_REPLAY)
                continue
            ea, eb = a.entries(), b.entries()
            if [(t, i) for t, i, _ in ea] != [(t, i) for t, i, _ in eb]:
                chk.violation(f"cli:dispatch-differs:{nm}", f"CLI lists {[(t, i) for t, i, _ in ea]}, JIT lists {[(t, i) for t, i, _ in eb]}", PAIR_REPLAY)
                continue
            for (it, sid, ka), (_, _, kb) in zip(ea, eb):
                itd = next(x for x in fref.fd.integral_data if x.integral_type == it and sid in sid_list(x))
                nw, nc, nx, shape, nA, width, cel = kernel_layout(fref, itd)
                kerna, kernb = m_cli.kernels[ic[ka].kernel_name], m_jit.kernels[ij[kb].kernel_name]
                ents = (0, 1) if it == "interior_facet" else ((1, 0) if it == "exterior_facet" else (0, 0))
                ctx = Ctx()
                inp = uflref.Inputs(ctx, nw, nc, nx, False)
                ra = ksym.run_kernel(kerna, ctx, inp, nA, entities=ents, perms=(0, 1))
                rb = ksym.run_kernel(kernb, ctx, inp, nA, entities=ents, perms=(0, 1))
                chk.cases.append(f"cli-vs-jit:{nm}:{it}")
                for i, (x, y) in enumerate(zip(ra.A, rb.A)):
                    v, model = eqcheck.qident(ctx, x - y, stats)
                    if v == "sat":
                        chk.violation(f"cli:kernel-differs:{nm}:{it}:A[{i}]", f"CLI kernel {kerna.name} and JIT kernel {kernb.name} differ in A[{i}] as polynomials of the inputs", PAIR_REPLAY)
                        break
                    elif v != "unsat":
                        chk.inconc(f"cli-vs-jit {nm} {it} A[{i}]: {v}")
    chk.merge_queries(stats.q, stats.secs)
