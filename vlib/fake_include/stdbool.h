#define bool _Bool
#define true 1
#define false 0
