
#define NULL ((void*)0)
