
#define I _Complex_I
#define complex _Complex
