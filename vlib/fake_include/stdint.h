typedef unsigned char uint8_t; typedef unsigned long uint64_t; typedef long int64_t; typedef int int32_t;
#define UINT64_C(x) x##UL
