"""C14 / C15: bounded model checking of the JIT cache protocol.

The per-process behaviour is EXTRACTED by running the real ffcx.codegeneration.jit.compile_forms
against environment stubs (open/os/time/cffi/importlib of the jit module, ffcx.compiler's code
generator): every stub logs an event and asks a script for the outcome; a DFS over outcome
scripts yields the process's decision tree.  N copies of the tree + a shared file state with POSIX
semantics (exclusive create, rename, exists) + a symbolic schedule and symbolic fault choices are
unrolled for z3; properties are reachability queries."""

from __future__ import annotations

import io
import logging
import os
import sys
import threading
import time
import types
from pathlib import Path

import z3


class NeedChoice(Exception):
    def __init__(self, n):
        self.n = n


class Unbounded(BaseException):
    pass


class Env:
    def __init__(self, script):
        self.script = list(script)
        self.pos = 0
        self.events = []

    def choose(self, ev, outcomes):
        if len(self.events) > 120:
            # the real functions loop / recurse without bound under this environment: the per-process protocol is
            # not a finite tree within the stated poll bound
            raise Unbounded(f"more than 120 protocol events in one request (last: {self.events[-3:]})")
        if len(outcomes) == 1:
            self.events.append((ev, outcomes[0]))
            return outcomes[0]
        if self.pos >= len(self.script):
            self.events.append((ev, None))
            raise NeedChoice(len(outcomes))
        c = self.script[self.pos]
        self.pos += 1
        self.events.append((ev, outcomes[c]))
        return outcomes[c]


_FORM = None


def _form():
    global _FORM
    if _FORM is None:
        import basix.ufl
        import ufl

        el = basix.ufl.element("Lagrange", "triangle", 1)
        dom = ufl.Mesh(basix.ufl.element("Lagrange", "triangle", 1, shape=(2,)))
        V = ufl.FunctionSpace(dom, el)
        _FORM = ufl.TrialFunction(V) * ufl.TestFunction(V) * ufl.dx
    return _FORM


_FORMS = None
SCALES = (3.0, 1.0, 2.0, 5.0)


def _forms():
    """Several distinct forms (k * mass).  A request for several objects must get them back in
    request order whichever branch (build / cache hit / wait) serves it; the order of the list is
    chosen so that the generated object names are not alphabetically sorted."""
    global _FORMS
    if _FORMS is None:
        import itertools

        import basix.ufl
        import ufl

        el = basix.ufl.element("Lagrange", "triangle", 1)
        dom = ufl.Mesh(basix.ufl.element("Lagrange", "triangle", 1, shape=(2,)))
        V = ufl.FunctionSpace(dom, el)
        u, v = ufl.TrialFunction(V), ufl.TestFunction(V)
        base = [(k, k * u * v * ufl.dx) for k in SCALES]
        _FORMS = base
        for perm in itertools.permutations(base):
            _FORMS = list(perm)
            r = run_once([], T=1, entry="forms")
            names = r[-1] if r[0] == "need" else None
            if names and names != sorted(names) and names != sorted(names, reverse=True):
                break
    return _FORMS


def _request(entry):
    """(objects to request, expected tag per object)."""
    import numpy as np

    fs = _FORMS if _FORMS is not None else _forms()
    if entry == "forms":
        return [f for _, f in fs]
    return [(f.integrals()[0].integrand(), np.array([[0.25, 0.25]])) for _, f in fs]


def run_once(script, T=2, entry="forms", extended=False):
    """One execution of the real compile_forms under a scripted environment."""
    import ffcx.codegeneration.jit as jit
    import ffcx.compiler

    env = Env(script)

    class FakeFile:
        def __init__(self, name):
            self.name = name

        def __enter__(self):
            return self

        def __exit__(self, *a):
            return False

        def write(self, x):
            o = env.choose(("write", self.name), ["ok", "fail"] if extended else ["ok"])
            if o == "fail":
                raise OSError("write failed")

        def close(self):
            env.choose(("close", self.name), ["ok"])

    def fake_open(name, mode="r"):
        nm = "cached" if str(name).endswith(".cached") else "c"
        if mode == "x":
            o = env.choose(("open_x", nm), ["ok", "exists"])
            if o == "exists":
                raise FileExistsError(str(name))
            return FakeFile(nm)
        raise RuntimeError(f"unexpected open mode {mode}")

    class FakeOS:
        class path:
            @staticmethod
            def exists(p):
                return env.choose(("exists", "cached"), [True, False])

            dirname = os.path.dirname
            abspath = os.path.abspath
            join = os.path.join

        @staticmethod
        def replace(a, b):
            env.choose(("rename_c_failed",), ["ok"])

        environ = os.environ

    class FakeTime:
        @staticmethod
        def sleep(n):
            env.choose(("sleep",), ["ok"])

        time = staticmethod(lambda: 0.0)

    class FakeFFI:
        def set_source(self, *a, **k):
            pass

        def cdef(self, d):
            pass

        def compile(self, **k):
            env.choose(("write_c_source",), ["ok"])
            env.choose(("so_partial",), ["ok"])
            o = env.choose(("cc",), ["ok", "fail"])
            if o == "fail":
                raise RuntimeError("C compiler failed")
            env.choose(("so_complete",), ["ok"])

    req_names = []

    class Lib:
        """The compiled module's lib: exports exactly the requested objects (plus cffi's own
        attributes); dir() is alphabetical as for any Python object."""

        def __getattr__(self, n):
            if n in req_names:
                return "obj:" + n
            raise AttributeError(n)

        def __dir__(self):
            return sorted(req_names + ["__class__", "__doc__"])

    import ffcx.naming as _naming

    saved_names = {k: getattr(_naming, k) for k in ("form_name", "expression_name")}

    def _rec(fn):
        def w(*a, **k):
            n = fn(*a, **k)
            req_names.append(n)
            return n
        return w

    _naming.form_name = _rec(saved_names["form_name"])
    _naming.expression_name = _rec(saved_names["expression_name"])

    class FakeFinder:
        def __init__(self, *a):
            pass

        def invalidate_caches(self):
            pass

        def find_spec(self, n):
            env.choose(("load",), ["ok"])
            return types.SimpleNamespace(loader=types.SimpleNamespace(exec_module=lambda m: None))

    class FakeImportlib:
        class machinery:
            FileFinder = FakeFinder
            ExtensionFileLoader = None
            EXTENSION_SUFFIXES = []

        class util:
            @staticmethod
            def module_from_spec(spec):
                return types.SimpleNamespace(lib=Lib())

    def fake_codegen(objs, namespace=None, options=None, visualise=False, **kw):
        o = env.choose(("codegen",), ["ok", "fail"])
        if o == "fail":
            raise RuntimeError("code generation failed")
        return ["/*h*/", "/*c*/"], (".h", ".c")

    nstat = [0]

    class FakePath(type(Path())):
        def mkdir(self, *a, **k):
            return None

        # operations on the lock file are part of the shared-file environment
        def stat(self, *a, **k):
            if str(self).endswith(".c"):
                nstat[0] += 1
                if nstat[0] > 2:
                    raise Unbounded("the lock file is examined a third time in one request (unbounded re-entry)")
                o = env.choose(("stat_c",), ["empty", "nonempty", "absent"])
                if o == "absent":
                    raise FileNotFoundError(str(self))
                return types.SimpleNamespace(st_size=0 if o == "empty" else 100)
            return super().stat(*a, **k)

        def unlink(self, missing_ok=False):
            if str(self).endswith(".c"):
                env.choose(("unlink_c",), ["ok"])
                return None
            return super().unlink(missing_ok=missing_ok)

    names = ["open", "os", "time", "cffi", "importlib", "Path"]
    saved = {k: getattr(jit, k) for k in names if hasattr(jit, k)}
    had_open = "open" in jit.__dict__
    saved_cg = ffcx.compiler.compile_ufl_objects
    jit.open = fake_open
    jit.os = FakeOS
    jit.time = FakeTime
    jit.cffi = types.SimpleNamespace(FFI=FakeFFI)
    jit.importlib = FakeImportlib
    jit.Path = FakePath
    ffcx.compiler.compile_ufl_objects = fake_codegen
    root = logging.getLogger()
    h0 = list(root.handlers)
    so = sys.stdout
    res = None
    try:
        try:
            if entry == "forms":
                out = jit.compile_forms(_request("forms"), cache_dir="/nonexistent/verif-jit-model", timeout=T)
            else:
                out = jit.compile_expressions(_request("expr"), cache_dir="/nonexistent/verif-jit-model", timeout=T)
            if out[0] is None:
                res = ("return", "none")
            elif list(out[0]) == ["obj:" + n for n in req_names]:
                res = ("return", "objects")
            else:
                res = ("return", "wrong-objects")
        except NeedChoice as n:
            return ("need", n.n, list(env.events), list(req_names))
        except Unbounded as u:
            res = ("diverges", str(u)[:200])
        except BaseException as e:
            res = ("raise", type(e).__name__)
    finally:
        for k, v in saved.items():
            setattr(jit, k, v)
        if not had_open and "open" in jit.__dict__:
            del jit.open
        ffcx.compiler.compile_ufl_objects = saved_cg
        for k, v in saved_names.items():
            setattr(_naming, k, v)
        restored = {"handlers": list(root.handlers) == h0, "stdout": sys.stdout is so}
        root.handlers[:] = h0
        sys.stdout = so
    return ("leaf", res, restored, list(env.events))


def extract_tree(T=2, entry="forms", extended=False):
    """DFS over outcome scripts -> list of leaves (script, result, restored, events)."""
    leaves = []
    stack = [[]]
    while stack:
        sc = stack.pop()
        r = run_once(sc, T, entry, extended)
        if r[0] == "need":
            for c in range(r[1]):
                stack.append(sc + [c])
        else:
            leaves.append((tuple(sc), r[1], r[2], r[3]))
        if len(leaves) > 600:
            raise RuntimeError("the per-process protocol tree has more than 600 leaves: the real functions loop or recurse without bound under the "
                               "environment model (a request that neither returns nor raises within the poll bound)")
    return sorted(leaves, key=lambda x: x[0])


class Tree:
    """Prefix tree of the leaves' event sequences."""

    def __init__(self, leaves):
        self.nodes = [{"ev": None, "children": {}, "leaf": None}]  # node 0 = root (before first event)
        for sc, res, restored, events in leaves:
            cur = 0
            for ev, out in events:
                n = self.nodes[cur]
                if n["ev"] is None:
                    n["ev"] = ev
                elif n["ev"] != ev:
                    raise RuntimeError(f"non-deterministic event at node {cur}: {n['ev']} vs {ev}")
                if out not in n["children"]:
                    self.nodes.append({"ev": None, "children": {}, "leaf": None})
                    n["children"][out] = len(self.nodes) - 1
                cur = n["children"][out]
            self.nodes[cur]["leaf"] = (res, restored)

    def size(self):
        return len(self.nodes)


# ---------------------------------------------------------------------------
# BMC

ABSENT, PRESENT = 0, 1
SO_NONE, SO_PARTIAL, SO_COMPLETE = 0, 1, 2


class Model:
    def __init__(self, tree: Tree, N: int, depth: int, faults: bool, kills: bool):
        self.tree, self.N, self.K = tree, N, depth
        self.s = z3.Solver()
        self.s.set("timeout", 120000)
        K = depth
        I = z3.Int
        self.pc = [[I(f"pc_{t}_{p}") for p in range(N)] for t in range(K + 1)]
        self.sched = [I(f"sched_{t}") for t in range(K)]
        self.kill = [z3.Bool(f"kill_{t}") for t in range(K)]
        self.dead = [[z3.Bool(f"dead_{t}_{p}") for p in range(N)] for t in range(K + 1)]
        self.c = [I(f"c_{t}") for t in range(K + 1)]
        self.cached = [I(f"cached_{t}") for t in range(K + 1)]
        self.failed = [I(f"failed_{t}") for t in range(K + 1)]
        self.so = [I(f"so_{t}") for t in range(K + 1)]
        self.built = [[z3.Bool(f"built_{t}_{p}") for p in range(N)] for t in range(K + 1)]
        self.badload = [z3.Bool(f"badload_{t}") for t in range(K + 1)]
        self.fault = [z3.Bool(f"fault_{t}") for t in range(K)]
        self.started_after_cached = [[z3.Bool(f"sac_{t}_{p}") for p in range(N)] for t in range(K + 1)]
        s = self.s
        # initial state
        for p in range(N):
            s.add(self.pc[0][p] == 0, z3.Not(self.dead[0][p]), z3.Not(self.built[0][p]), z3.Not(self.started_after_cached[0][p]))
        s.add(self.c[0] == ABSENT, self.cached[0] == ABSENT, self.failed[0] == ABSENT, self.so[0] == SO_NONE, z3.Not(self.badload[0]))
        nodes = tree.nodes
        leafs = [i for i, n in enumerate(nodes) if n["ev"] is None]
        for t in range(K):
            s.add(self.sched[t] >= 0, self.sched[t] < N)
            if not faults:
                s.add(z3.Not(self.fault[t]))
            if not kills:
                s.add(z3.Not(self.kill[t]))
            for p in range(N):
                mv = self.sched[t] == p
                pcn, pc = self.pc[t + 1][p], self.pc[t][p]
                # frame for non-movers
                s.add(z3.Implies(z3.Not(mv), z3.And(pcn == pc, self.dead[t + 1][p] == self.dead[t][p], self.built[t + 1][p] == self.built[t][p],
                                                    self.started_after_cached[t + 1][p] == self.started_after_cached[t][p])))
                # a killed process dies instead of moving
                s.add(z3.Implies(z3.And(mv, self.kill[t]), z3.And(self.dead[t + 1][p], pcn == pc, self.built[t + 1][p] == self.built[t][p],
                                                                  self.started_after_cached[t + 1][p] == self.started_after_cached[t][p])))
                s.add(z3.Implies(z3.And(mv, z3.Not(self.kill[t])), self.dead[t + 1][p] == self.dead[t][p]))
                stuck = z3.Or(self.dead[t][p], z3.Or(*[pc == l for l in leafs]))
                # stutter when the chosen process cannot move
                s.add(z3.Implies(z3.And(mv, z3.Not(self.kill[t]), stuck), z3.And(pcn == pc, self.built[t + 1][p] == self.built[t][p],
                                                                                  self.started_after_cached[t + 1][p] == self.started_after_cached[t][p])))
                s.add(z3.Implies(z3.And(mv, self.started_after_cached[t][p]), self.started_after_cached[t + 1][p]))
            # state frame / updates by the mover
            upd_c, upd_cached, upd_failed, upd_so, upd_bad = self.c[t], self.cached[t], self.failed[t], self.so[t], self.badload[t]
            for p in range(N):
                mv = z3.And(self.sched[t] == p, z3.Not(self.kill[t]), z3.Not(self.dead[t][p]))
                pc, pcn = self.pc[t][p], self.pc[t + 1][p]
                for u, n in enumerate(nodes):
                    if n["ev"] is None:
                        continue
                    at = z3.And(mv, pc == u)
                    ev, ch = n["ev"], n["children"]
                    kind = ev[0]

                    def go(out):
                        return pcn == ch[out] if out in ch else z3.BoolVal(False)

                    bnext = self.built[t + 1][p] == self.built[t][p]
                    sacn = self.started_after_cached[t + 1][p]
                    sac_keep = z3.Implies(z3.Not(self.started_after_cached[t][p]), z3.Not(sacn)) if u != 0 else z3.BoolVal(True)
                    if kind == "open_x" and ev[1] == "c":
                        s.add(z3.Implies(at, z3.And(z3.If(self.c[t] == ABSENT, go("ok"), go("exists")), bnext)))
                        if u == 0 or True:
                            # first event of a request: remember whether the marker already existed
                            first = (u == 0)
                            if first:
                                s.add(z3.Implies(at, sacn == (self.cached[t] == PRESENT)))
                            else:
                                s.add(z3.Implies(at, sac_keep))
                        upd_c = z3.If(z3.And(at, self.c[t] == ABSENT), PRESENT, upd_c)
                    elif kind == "open_x" and ev[1] == "cached":
                        s.add(z3.Implies(at, z3.And(z3.If(self.cached[t] == ABSENT, go("ok"), go("exists")), bnext, sac_keep)))
                        upd_cached = z3.If(z3.And(at, self.cached[t] == ABSENT), PRESENT, upd_cached)
                    elif kind == "exists":
                        s.add(z3.Implies(at, z3.And(z3.If(self.cached[t] == PRESENT, go(True), go(False)), bnext, sac_keep)))
                    elif kind == "stat_c":
                        # size of the lock file: absent / empty until cffi has written the source / non-empty afterwards
                        s.add(z3.Implies(at, z3.And(z3.If(self.c[t] == ABSENT, go("absent"), z3.If(self.so[t] == SO_NONE, go("empty"), go("nonempty"))), bnext, sac_keep)))
                    elif kind in ("codegen", "cc") or (kind == "write" and "fail" in ch):
                        ok = go("ok")
                        bad = go("fail")
                        s.add(z3.Implies(at, z3.And(z3.If(self.fault[t], bad, ok), sac_keep)))
                        if kind == "codegen":
                            s.add(z3.Implies(at, self.built[t + 1][p]))
                        else:
                            s.add(z3.Implies(at, bnext))
                    else:
                        out = next(iter(ch))
                        s.add(z3.Implies(at, z3.And(go(out), bnext, sac_keep)))
                        if kind == "so_partial":
                            upd_so = z3.If(at, SO_PARTIAL, upd_so)
                        elif kind == "so_complete":
                            upd_so = z3.If(at, SO_COMPLETE, upd_so)
                        elif kind == "rename_c_failed":
                            upd_failed = z3.If(z3.And(at, self.c[t] == PRESENT), PRESENT, upd_failed)
                            upd_c = z3.If(at, ABSENT, upd_c)
                        elif kind == "unlink_c":
                            upd_c = z3.If(at, ABSENT, upd_c)
                        elif kind == "load":
                            upd_bad = z3.If(z3.And(at, self.so[t] != SO_COMPLETE), True, upd_bad)
            s.add(self.c[t + 1] == upd_c, self.cached[t + 1] == upd_cached, self.failed[t + 1] == upd_failed, self.so[t + 1] == upd_so, self.badload[t + 1] == upd_bad)

    def leaf_ids(self, pred):
        return [i for i, n in enumerate(self.tree.nodes) if n["leaf"] is not None and pred(n["leaf"])]

    def query(self, bad, extra=()):
        self.s.push()
        for e in extra:
            self.s.add(e)
        self.s.add(bad)
        t0 = time.time()
        r = str(self.s.check())
        trace = None
        if r == "sat":
            m = self.s.model()
            trace = []
            for t in range(self.K):
                p = m.eval(self.sched[t], model_completion=True).as_long()
                u = m.eval(self.pc[t][p], model_completion=True).as_long()
                u2 = m.eval(self.pc[t + 1][p], model_completion=True).as_long()
                ev = self.tree.nodes[u]["ev"]
                kill = z3.is_true(m.eval(self.kill[t], model_completion=True))
                flt = z3.is_true(m.eval(self.fault[t], model_completion=True))
                if u != u2 or kill:
                    trace.append({"step": t, "proc": p, "event": ev, "kill": kill, "fault": flt,
                                  "state_after": {"c": m.eval(self.c[t + 1]).as_long(), "cached": m.eval(self.cached[t + 1]).as_long(), "so": m.eval(self.so[t + 1]).as_long()}})
        self.s.pop()
        return r, trace, time.time() - t0


def replay_trace(trace, N, T, entry="forms"):
    """Execute a schedule against the REAL compile_forms in N threads with baton passing; the
    environment is a shared in-memory file system with the same POSIX semantics.  Returns the
    list of observed events and per-thread results."""
    import ffcx.codegeneration.jit as jit
    import ffcx.compiler

    state = {"c": False, "cached": False, "failed": False, "so": 0}
    observed = []
    order = [(st["proc"], st.get("kill", False), st.get("fault", False)) for st in trace]
    turn = {"i": 0}
    cv = threading.Condition()
    dead = set()
    tl = threading.local()

    class Killed(BaseException):
        pass

    def step(ev):
        """Block until it is this thread's turn; returns the fault flag for this step."""
        p = tl.p
        with cv:
            while True:
                if turn["i"] >= len(order):
                    # schedule exhausted: run freely
                    return False
                q, kill, flt = order[turn["i"]]
                if q == p:
                    turn["i"] += 1
                    cv.notify_all()
                    if kill:
                        dead.add(p)
                        raise Killed()
                    observed.append((p, ev))
                    return flt
                if q in dead or q in finished:
                    turn["i"] += 1
                    cv.notify_all()
                    continue
                cv.wait(timeout=0.05)

    finished = set()

    class FakeFile:
        def __init__(self, name):
            self.name = name

        def __enter__(self):
            return self

        def __exit__(self, *a):
            return False

        def write(self, x):
            step(("write", self.name))

        def close(self):
            step(("close", self.name))

    def fake_open(name, mode="r"):
        nm = "cached" if str(name).endswith(".cached") else "c"
        step(("open_x", nm))
        if state[nm]:
            raise FileExistsError(str(name))
        state[nm] = True
        return FakeFile(nm)

    class FakeOS:
        class path:
            @staticmethod
            def exists(p):
                step(("exists", "cached"))
                return state["cached"]

            dirname, abspath, join = os.path.dirname, os.path.abspath, os.path.join

        @staticmethod
        def replace(a, b):
            step(("rename_c_failed",))
            if state["c"]:
                state["failed"] = True
            state["c"] = False

        environ = os.environ

    class FakeTime:
        @staticmethod
        def sleep(n):
            step(("sleep",))

        time = staticmethod(lambda: 0.0)

    class FakeFFI:
        def set_source(self, *a, **k):
            pass

        def cdef(self, d):
            pass

        def compile(self, **k):
            step(("write_c_source",))
            step(("so_partial",))
            state["so"] = 1
            if step(("cc",)):
                raise RuntimeError("C compiler failed")
            step(("so_complete",))
            state["so"] = 2

    req = {}

    class Lib:
        def __getattr__(self, n):
            if any(n in v for v in req.values()):
                return "obj:" + n
            raise AttributeError(n)

        def __dir__(self):
            return sorted({n for v in req.values() for n in v} | {"__class__", "__doc__"})

    import ffcx.naming as _naming

    saved_names = {k: getattr(_naming, k) for k in ("form_name", "expression_name")}

    def _rec(fn):
        def w(*a, **k):
            n = fn(*a, **k)
            req.setdefault(tl.p, []).append(n)
            return n
        return w

    _naming.form_name = _rec(saved_names["form_name"])
    _naming.expression_name = _rec(saved_names["expression_name"])

    class FakeFinder:
        def __init__(self, *a):
            pass

        def invalidate_caches(self):
            pass

        def find_spec(self, n):
            step(("load",))
            observed.append((tl.p, ("loaded_so_state", state["so"])))
            return types.SimpleNamespace(loader=types.SimpleNamespace(exec_module=lambda m: None))

    class FakeImportlib:
        class machinery:
            FileFinder = FakeFinder
            ExtensionFileLoader = None
            EXTENSION_SUFFIXES = []

        class util:
            @staticmethod
            def module_from_spec(spec):
                return types.SimpleNamespace(lib=Lib())

    def fake_codegen(objs, namespace=None, options=None, visualise=False, **kw):
        if step(("codegen",)):
            raise RuntimeError("code generation failed")
        return ["/*h*/", "/*c*/"], (".h", ".c")

    class FakePath(type(Path())):
        def mkdir(self, *a, **k):
            return None

        def stat(self, *a, **k):
            if str(self).endswith(".c"):
                step(("stat_c",))
                if not state["c"]:
                    raise FileNotFoundError(str(self))
                return types.SimpleNamespace(st_size=0 if state["so"] == 0 else 100)
            return super().stat(*a, **k)

        def unlink(self, missing_ok=False):
            if str(self).endswith(".c"):
                step(("unlink_c",))
                state["c"] = False
                return None
            return super().unlink(missing_ok=missing_ok)

    names = ["open", "os", "time", "cffi", "importlib", "Path"]
    saved = {k: getattr(jit, k) for k in names if hasattr(jit, k)}
    had_open = "open" in jit.__dict__
    saved_cg = ffcx.compiler.compile_ufl_objects
    jit.open, jit.os, jit.time = fake_open, FakeOS, FakeTime
    jit.cffi = types.SimpleNamespace(FFI=FakeFFI)
    jit.importlib, jit.Path = FakeImportlib, FakePath
    ffcx.compiler.compile_ufl_objects = fake_codegen
    results = {}
    root = logging.getLogger()
    h0 = list(root.handlers)
    so0 = sys.stdout

    def worker(p):
        tl.p = p
        try:
            out = jit.compile_forms(_request("forms"), cache_dir="/nonexistent/verif-jit-model", timeout=T)
            results[p] = ("return", out[0] is not None and list(out[0]) == ["obj:" + n for n in req.get(p, [])])
        except Killed:
            results[p] = ("killed",)
        except BaseException as e:
            results[p] = ("raise", type(e).__name__)
        finally:
            with cv:
                finished.add(p)
                cv.notify_all()

    try:
        _forms()
        ths = [threading.Thread(target=worker, args=(p,), daemon=True) for p in range(N)]
        for th in ths:
            th.start()
        for th in ths:
            th.join(timeout=30)
    finally:
        for k, v in saved.items():
            setattr(jit, k, v)
        if not had_open and "open" in jit.__dict__:
            del jit.open
        ffcx.compiler.compile_ufl_objects = saved_cg
        for k, v in saved_names.items():
            setattr(_naming, k, v)
        handlers_restored = list(root.handlers) == h0
        root.handlers[:] = h0
        sys.stdout = so0
    return observed, results, {"handlers_restored": handlers_restored}
