"""A small path-exploring symbolic executor for unmodified Python functions over numbers.

SymFloat (a float subclass) and SymInt (an int subclass) carry z3 terms (Real / Int, i.e. exact
arithmetic); every truth test of a comparison consults the solver: infeasible branches are
pruned, feasible forks are explored by re-executing the function with a decision script (DFS).
The real code sees ordinary floats/ints (isinstance checks pass), so no source changes are
needed.  For each complete path the caller gets (path condition, returned object)."""

from __future__ import annotations

import z3


class Unsupported(Exception):
    pass


class _Run:
    def __init__(self, script):
        self.script = list(script)
        self.pos = 0
        self.pc = []
        self.forks = []  # scripts to explore later
        self.solver = z3.Solver()
        self.solver.set("timeout", 10000)
        self.queries = 0

    def decide(self, cond):
        if self.pos < len(self.script):
            d = self.script[self.pos]
        else:
            self.queries += 2
            self.solver.push()
            self.solver.add(cond)
            t = self.solver.check()
            self.solver.pop()
            self.solver.push()
            self.solver.add(z3.Not(cond))
            f = self.solver.check()
            self.solver.pop()
            can_t, can_f = t != z3.unsat, f != z3.unsat
            if can_t and can_f:
                d = True
                self.forks.append(self.script[: self.pos] + [False])
            elif can_t:
                d = True
            elif can_f:
                d = False
            else:
                raise Unsupported("infeasible path")
            self.script = self.script[: self.pos] + [d]
        self.pos += 1
        c = cond if d else z3.Not(cond)
        self.pc.append(c)
        self.solver.add(c)
        return d


CUR: _Run | None = None


class SymBool:
    def __init__(self, z):
        self.z = z

    def __bool__(self):
        return CUR.decide(self.z)

    def __invert__(self):
        return SymBool(z3.Not(self.z))


def zof(x):
    """z3 arithmetic term of a python / symbolic number."""
    if isinstance(x, (SymFloat, SymInt)):
        return x.z
    if isinstance(x, bool):
        return z3.IntVal(int(x))
    if isinstance(x, int):
        return z3.IntVal(int(x))
    if isinstance(x, float):
        from fractions import Fraction

        fr = Fraction(x)
        return z3.RealVal(f"{fr.numerator}/{fr.denominator}")
    raise Unsupported(f"operand {type(x).__name__}")


def _real(z):
    return z3.ToReal(z) if z.sort() == z3.IntSort() else z


def _binop(a, b, op):
    if not isinstance(a, (int, float)) or not isinstance(b, (int, float)):
        return NotImplemented  # let the other operand's reflected method run (e.g. LExpr.__radd__)
    za, zb = zof(a), zof(b)
    isint = za.sort() == z3.IntSort() and zb.sort() == z3.IntSort() and op != "div"
    if not isint:
        za, zb = _real(za), _real(zb)
    if op == "add":
        r = za + zb
    elif op == "sub":
        r = za - zb
    elif op == "mul":
        r = za * zb
    elif op == "div":
        r = za / zb
    else:
        raise Unsupported(op)
    return SymInt(r) if isint else SymFloat(r)


def _cmp(a, b, op):
    za, zb = zof(a), zof(b)
    if za.sort() != zb.sort():
        za, zb = _real(za), _real(zb)
    return SymBool({"eq": za == zb, "ne": za != zb, "lt": za < zb, "le": za <= zb, "gt": za > zb, "ge": za >= zb}[op])


class _SymMixin:
    def __add__(self, o):
        return _binop(self, o, "add")

    def __radd__(self, o):
        return _binop(o, self, "add")

    def __sub__(self, o):
        return _binop(self, o, "sub")

    def __rsub__(self, o):
        return _binop(o, self, "sub")

    def __mul__(self, o):
        return _binop(self, o, "mul")

    def __rmul__(self, o):
        return _binop(o, self, "mul")

    def __truediv__(self, o):
        return _binop(self, o, "div")

    def __rtruediv__(self, o):
        return _binop(o, self, "div")

    def __neg__(self):
        return type(self)(-self.z)

    def __pos__(self):
        return self

    def __abs__(self):
        return type(self)(z3.If(self.z >= 0, self.z, -self.z))

    def __eq__(self, o):
        try:
            return _cmp(self, o, "eq")
        except Unsupported:
            return False

    def __ne__(self, o):
        try:
            return _cmp(self, o, "ne")
        except Unsupported:
            return True

    def __lt__(self, o):
        return _cmp(self, o, "lt")

    def __le__(self, o):
        return _cmp(self, o, "le")

    def __gt__(self, o):
        return _cmp(self, o, "gt")

    def __ge__(self, o):
        return _cmp(self, o, "ge")

    def __hash__(self):
        return hash(str(self.z))

    def __bool__(self):
        return CUR.decide(self.z != 0)

    def __repr__(self):
        return f"<{self.z}>"

    __str__ = __repr__

    def __format__(self, spec):
        raise Unsupported("formatting a symbolic number")


class SymFloat(_SymMixin, float):
    def __new__(cls, z):
        o = float.__new__(cls, 0.0)
        o.z = z
        return o

    def __float__(self):
        raise Unsupported("float() of a symbolic value")


class SymInt(_SymMixin, int):
    def __new__(cls, z):
        o = int.__new__(cls, 0)
        o.z = z
        return o

    def __index__(self):
        raise Unsupported("index() of a symbolic value")

    def __int__(self):
        return self  # int(x) of a symbolic integer stays symbolic


class Raised:
    """Result of a path on which the function under analysis raised an exception."""

    def __init__(self, exc):
        self.exc = exc


def explore(fn, assumptions=(), max_paths=200):
    """Run fn() along every feasible path.  fn builds its symbolic inputs itself.
    Yields (path_condition list, result, run)."""
    global CUR
    work = [[]]
    n = 0
    while work:
        script = work.pop()
        run = _Run(script)
        for a in assumptions:
            run.solver.add(a)
            run.pc.append(a)
        CUR = run
        try:
            res = fn()
        except Unsupported:
            raise
        except Exception as e:  # the function under analysis raised on this (feasible) path
            res = Raised(e)
        finally:
            CUR = None
        work.extend(run.forks)
        n += 1
        yield run.pc, res, run
        if n >= max_paths:
            raise Unsupported(f"more than {max_paths} paths")
