"""Solver queries over the polynomial value domain (z3)."""

from __future__ import annotations

import time
from fractions import Fraction

import z3

from .poly import CPoly, Ctx, Poly, parts

Z3_TIMEOUT_MS = 20000


def _rv(c: Fraction):
    return z3.RealVal(f"{c.numerator}/{c.denominator}") if c.denominator != 1 else z3.RealVal(c.numerator)


def mono_bound(ctx: Ctx, m) -> float:
    b = 1.0
    for v in m:
        vv = ctx.vars[v]
        b *= max(abs(vv.lo), abs(vv.hi))
    return b


class QStats:
    def __init__(self):
        self.q = {}
        self.secs = 0.0

    def add(self, kind, verdict, secs=0.0):
        d = self.q.setdefault(kind, {})
        d[verdict] = d.get(verdict, 0) + 1
        self.secs += secs


def qtol(ctx: Ctx, D: Poly, tol: float, stats: QStats | None = None):
    """Decide  forall inputs in box: |D| <= tol  by the monomial abstraction (QF_LRA).

    One bounded real variable per distinct monomial of D (monomials are treated as
    independent, which only enlarges the feasible set) -> `unsat` is a proof of the
    claim over the whole box.  Returns (verdict, model_bound, nterms)."""
    t0 = time.time()
    if not D.t:
        if stats:
            stats.add("Q-tol", "unsat(zero-poly)", 0.0)
        return "unsat", 0.0, 0
    s = z3.Solver()
    s.set("timeout", Z3_TIMEOUT_MS)
    acc = []
    tot = 0.0
    for i, (m, c) in enumerate(D.t.items()):
        if not m:
            acc.append(_rv(c))
            tot += abs(float(c))
            continue
        b = mono_bound(ctx, m)
        tot += abs(float(c)) * b
        v = z3.Real(f"m{i}")
        bb = _rv(Fraction(b))
        # sign information: monomials made only of non-negative atoms and even powers
        lo = -bb
        if _nonneg(ctx, m):
            lo = z3.RealVal(0)
        s.add(v <= bb, v >= lo)
        acc.append(_rv(c) * v)
    e = z3.Sum(acc) if len(acc) > 1 else acc[0]
    tv = _rv(Fraction(tol))
    s.add(z3.Or(e > tv, e < -tv))
    r = str(s.check())
    dt = time.time() - t0
    if stats:
        stats.add("Q-tol", r, dt)
    return r, tot, len(D.t)


def qrel(ctx: Ctx, D: Poly, R: Poly, rel: float, floor: float, stats: QStats | None = None):
    """Decide the pointwise-relative claim
         forall inputs in box: |D| <= sum_m (rel*|r_m| + floor) * |m|
    (r_m = coefficients of R, m ranges over the monomials of D) in the independent-monomial
    abstraction: y_m = p_m - n_m, 0 <= p_m, n_m <= bound(m), |y_m| replaced by p_m + n_m
    (exact at the optimum).  QF_LRA; `unsat` proves the claim on the whole box.
    Returns (verdict, worst monomial info)."""
    t0 = time.time()
    if not D.t:
        if stats:
            stats.add("Q-tol", "unsat(zero-poly)", 0.0)
        return "unsat", None
    s = z3.Solver()
    s.set("timeout", Z3_TIMEOUT_MS)
    pos, neg = [], []
    worst = None
    for i, (m, d) in enumerate(D.t.items()):
        c = Fraction(rel) * abs(R.t.get(m, 0)) + Fraction(floor)
        b = mono_bound(ctx, m) if m else 1.0
        bb = _rv(Fraction(b))
        p = z3.Real(f"p{i}")
        s.add(p >= 0, p <= bb)
        y = p
        ab = p
        if m and not _nonneg(ctx, m):
            n = z3.Real(f"n{i}")
            s.add(n >= 0, n <= bb)
            y = p - n
            ab = p + n
        elif not m:
            s.add(p == 1)
        pos.append(_rv(d) * y - _rv(c) * ab)
        neg.append(-_rv(d) * y - _rv(c) * ab)
        ex = abs(float(d)) - float(c)
        if ex > 0 and (worst is None or ex * b > worst[0]):
            worst = (ex * b, m, float(d), float(c))
    s.add(z3.Or(z3.Sum(pos) > 0, z3.Sum(neg) > 0))
    r = str(s.check())
    if stats:
        stats.add("Q-tol", r, time.time() - t0)
    return r, worst


def _nonneg(ctx, m):
    i = 0
    n = len(m)
    while i < n:
        v = m[i]
        j = i
        while j < n and m[j] == v:
            j += 1
        cnt = j - i
        vv = ctx.vars[v]
        if vv.lo < 0 and cnt % 2 == 1:
            return False
        i = j
    return True


def qident(ctx: Ctx, D: Poly, stats: QStats | None = None):
    """Decide  exists assignment of all variables (atoms free, indicator atoms in {0,1}):
    D != 0.  Returns (verdict, model dict name->Fraction | None)."""
    t0 = time.time()
    if not D.t:
        if stats:
            stats.add("Q-ident", "unsat(zero-poly)", 0.0)
        return "unsat", None
    s = z3.Solver()
    s.set("timeout", Z3_TIMEOUT_MS)
    zv = {}
    terms = []
    for m, c in D.t.items():
        t = _rv(c)
        for v in m:
            if v not in zv:
                zv[v] = z3.Real(f"v{v}")
            t = t * zv[v]
        terms.append(t)
    for v, x in zv.items():
        vv = ctx.vars[v]
        if vv.boolean:
            s.add(z3.Or(x == 0, x == 1))
    s.add(z3.Sum(terms) != 0 if len(terms) > 1 else terms[0] != 0)
    r = str(s.check())
    model = None
    if r == "sat":
        mdl = s.model()
        model = {}
        for v, x in zv.items():
            val = mdl.eval(x, model_completion=True)
            try:
                model[ctx.vars[v].name] = Fraction(val.numerator_as_long(), val.denominator_as_long())
            except Exception:
                model[ctx.vars[v].name] = Fraction(0)
    dt = time.time() - t0
    if stats:
        stats.add("Q-ident", r, dt)
    return r, model


def qdep(ctx: Ctx, P: Poly, names_prefix: tuple, stats: QStats | None = None):
    """Decide  exists two assignments equal outside variables whose name starts with one
    of names_prefix such that P differs.  Encoded as existence of a non-zero coefficient
    polynomial of a monomial containing such a variable: z3 is asked for the sum over those
    monomials (with the selected variables renamed apart) to differ."""
    t0 = time.time()
    sel = {v.id for v in ctx.vars if v.name.startswith(names_prefix)}
    dep = {m: c for m, c in P.t.items() if sel.intersection(m)}
    if not dep:
        if stats:
            stats.add("Q-dep", "unsat(no-occurrence)", 0.0)
        return "unsat", None
    s = z3.Solver()
    s.set("timeout", Z3_TIMEOUT_MS)
    za, zb = {}, {}
    ta, tb = [], []
    for m, c in dep.items():
        x = _rv(c)
        y = _rv(c)
        for v in m:
            if v not in za:
                za[v] = z3.Real(f"a{v}")
                zb[v] = z3.Real(f"b{v}") if v in sel else za[v]
            x = x * za[v]
            y = y * zb[v]
        ta.append(x)
        tb.append(y)
    s.add(z3.Sum(ta) != z3.Sum(tb))
    r = str(s.check())
    model = None
    if r == "sat":
        mdl = s.model()
        model = ({ctx.vars[v].name: _fr(mdl.eval(x, model_completion=True)) for v, x in za.items()},
                 {ctx.vars[v].name: _fr(mdl.eval(x, model_completion=True)) for v, x in zb.items()})
    if stats:
        stats.add("Q-dep", r, time.time() - t0)
    return r, model


def _fr(val):
    try:
        return Fraction(val.numerator_as_long(), val.denominator_as_long())
    except Exception:
        try:
            return Fraction(val.approx(20).numerator_as_long(), val.approx(20).denominator_as_long())
        except Exception:
            return Fraction(0)


def qlia_bounds(index_terms, constraints, extent_checks, stats: QStats | None = None):
    """Generic helper: `constraints` list of z3 Bool; `extent_checks` list of (label, z3 Bool
    'in range').  For each label decide exists vars: constraints and not in-range."""
    out = []
    s = z3.Solver()
    s.set("timeout", Z3_TIMEOUT_MS)
    s.add(*constraints)
    for label, ok in extent_checks:
        t0 = time.time()
        s.push()
        s.add(z3.Not(ok))
        r = str(s.check())
        m = None
        if r == "sat":
            mdl = s.model()
            m = {str(d): mdl[d].as_long() for d in mdl.decls() if hasattr(mdl[d], "as_long")}
        s.pop()
        if stats:
            stats.add("Q-lia", r, time.time() - t0)
        out.append((label, r, m))
    return out


def rel_excess(ctx: Ctx, D: Poly, R: Poly, rel: float, floor: float, val) -> float:
    """|D(x)| - sum_m (rel*|r_m|+floor)*|m(x)| at a concrete point (val: var id -> float)."""
    tot = 0.0
    allow = 0.0
    for m, d in D.t.items():
        x = 1.0
        for v in m:
            x *= val(v)
        tot += float(d) * x
        allow += (rel * abs(float(R.t.get(m, 0))) + floor) * abs(x)
    return abs(tot) - allow


def allowance(ctx: Ctx, D: Poly, R: Poly, rel: float, floor: float, env: dict) -> float:
    val = ctx.evaluator(env)
    allow = 0.0
    for m in set(D.t) | set(R.t):
        x = 1.0
        for v in m:
            x *= val(v)
        allow += (rel * abs(float(R.t.get(m, 0))) + floor) * abs(x)
    return allow


def witness_rel(ctx: Ctx, D: Poly, R: Poly, rel: float, floor: float, base_env: dict | None, ok_fn, tries=60, seed=0):
    """Concrete candidate input maximising the pointwise excess; only a candidate: it is
    replayed on the compiled kernel before anything is reported."""
    import random

    rnd = random.Random(seed)
    names = [v for v in ctx.vars if v.defn is None and v.kind != "havoc"]
    best = None
    for k in range(tries):
        env = {}
        for v in names:
            if base_env and v.name in base_env:
                env[v.name] = base_env[v.name] + (rnd.uniform(-0.1, 0.1) if k else 0.0)
            else:
                env[v.name] = round(rnd.choice([-1, 1]) * rnd.uniform(0.3, 1.8), 3)
        try:
            val = ctx.evaluator(env)
            ex = rel_excess(ctx, D, R, rel, floor, val)
        except Exception:
            continue
        if ex == ex and ex > 0 and ok_fn(env) and (best is None or ex > best[0]):
            best = (ex, env)
    return best[1] if best else None


def witness_search(ctx: Ctx, D, tol: float, base_env: dict | None = None, tries: int = 60, seed: int = 0,
                   free_names=None):
    """Look for a concrete input with |D| > tol.  First asks z3 (QF_NRA, explicit polynomial
    after substituting atom definitions is not available in general, so atoms are evaluated
    numerically): deterministic corner/random probes of the box, used only to obtain a
    *candidate* that is then replayed on the real kernel.  Returns env or None."""
    import random

    rnd = random.Random(seed)
    names = [v for v in ctx.vars if v.defn is None and v.kind != "havoc"]
    best = None
    for k in range(tries):
        env = dict(base_env or {})
        for v in names:
            if free_names is not None and v.name not in free_names and v.name in env:
                continue
            if v.name in env and k % 2 == 1 and not (free_names and v.name in free_names):
                continue
            if base_env and v.name.startswith("x") and v.name in base_env:
                env[v.name] = base_env[v.name] + rnd.uniform(-0.1, 0.1)
            else:
                env[v.name] = round(rnd.uniform(max(v.lo, -2), min(v.hi, 2)), 3)
        try:
            val = D.eval(env)
        except Exception:
            continue
        mag = abs(val)
        if mag == mag and mag > tol and (best is None or mag > best[0]):
            best = (mag, env)
            if mag > 100 * tol:
                break
    return best[1] if best else None
