"""Modules holding SEVERAL objects (forms and/or expressions), compiled in one call per backend and in
one process: numba text vs C text for every kernel of every object (C18), so that state carried from
one kernel/object to the next inside the code generator (caches keyed by table names, counters, ...)
becomes a value difference.  Also covers expression kernels of the numba backend."""

from __future__ import annotations

import time
import traceback

import numpy as np

from . import cfront, corpus, eqcheck, exprcheck, gen, ksym, kvk, pyfront, uflref
from .formcheck import FLOOR_STRICT, STRICT_OPTS, coeff_scale, split_parts
from .kir import BudgetExceeded
from .poly import CPoly, Ctx, KsymError


def _space(cell, fam, deg, **kw):
    return corpus.space(corpus.mesh(cell), fam, deg, **kw)


def _mass(V):
    import ufl

    return ufl.TrialFunction(V) * ufl.TestFunction(V) * ufl.dx if not V.ufl_element().reference_value_shape else ufl.inner(ufl.TrialFunction(V), ufl.TestFunction(V)) * ufl.dx


def _eval_expr(V, pts):
    import ufl

    return (ufl.Coefficient(V), np.asarray(pts, dtype=float))


TRI3 = [[0.1, 0.2], [0.5, 0.25], [0.0, 1.0], [0.3, 0.3]]

# name -> list of builders; same-shape tables of DIFFERENT elements meet in one module
MODULES = {
    "P1_CR_mass_triangle": lambda: [_mass(_space("triangle", "Lagrange", 1)), _mass(_space("triangle", "CR", 1))],
    "CR_P1_mass_triangle": lambda: [_mass(_space("triangle", "CR", 1)), _mass(_space("triangle", "Lagrange", 1))],
    "P1_CR_expr_triangle": lambda: [_eval_expr(_space("triangle", "Lagrange", 1), TRI3), _eval_expr(_space("triangle", "CR", 1), TRI3)],
    "CR_P1_expr_triangle": lambda: [_eval_expr(_space("triangle", "CR", 1), TRI3), _eval_expr(_space("triangle", "Lagrange", 1), TRI3)],
    "N1curl_RT_mass_triangle": lambda: [_mass(_space("triangle", "N1curl", 1)), _mass(_space("triangle", "RT", 1))],
    "P3_variants_mass_interval": lambda: [_mass(_space("interval", "Lagrange", 3, lagrange_variant=__import__("basix").LagrangeVariant.equispaced)),
                                          _mass(_space("interval", "Lagrange", 3, lagrange_variant=__import__("basix").LagrangeVariant.gll_warped))],
    "DG1_legendre_lagrange_interval": lambda: [_mass(_space("interval", "DG", 1)),
                                               _mass(_space("interval", "DG", 1, lagrange_variant=__import__("basix").LagrangeVariant.legendre))],
    "P2_P1_P2_forms_and_exprs": lambda: [_mass(_space("triangle", "Lagrange", 2)), _eval_expr(_space("triangle", "Lagrange", 2), TRI3[:2]),
                                         _mass(_space("triangle", "Lagrange", 1)), _eval_expr(_space("triangle", "Lagrange", 1), TRI3[:2])],
    "corpus_pair_poisson_mass": lambda: [corpus.build("poisson_P1_coef_triangle"), corpus.build("mass_P2_triangle")],
    "corpus_pair_dS_ds": lambda: [corpus.build("dS_jump_DG1_coef_triangle"), corpus.build("ds_mass_P1_triangle")],
    "expr_pair_grad": lambda: [exprcheck.EXPRS["grad_P1_triangle"]["build"](), exprcheck.EXPRS["grad_P2_triangle"]["build"]()],
}
QUICK = ["P1_CR_mass_triangle", "CR_P1_expr_triangle", "P1_CR_expr_triangle", "N1curl_RT_mass_triangle", "DG1_legendre_lagrange_interval", "P2_P1_P2_forms_and_exprs", "corpus_pair_dS_ds"]


def select(quick=False):
    return list(QUICK) if quick else list(MODULES)


def _new_res(name):
    return {"name": name, "entries": 0, "kernels": 0, "configs": 0, "queries": {}, "solver_s": 0.0, "inconclusive": [],
            "violations": [], "harness": [], "outside": [], "selfval": 0, "twins_run": 0, "twins_ok": 0, "samples": [], "extra": {}}


def module_case(name, spec):
    t0 = time.time()
    res = _new_res(name)
    try:
        _module(name, spec, res)
    except BudgetExceeded as e:
        res["outside"].append(f"{name}: polynomial size {e} over budget")
    except gen.Rejected as e:
        res["outside"].append(f"{name}: rejected by FFCx with {e}")
    except KsymError as e:
        res["harness"].append(f"{name}: ksym: {e}")
    except Exception as e:
        res["harness"].append(f"{name}: {type(e).__name__}: {e}\n{traceback.format_exc()[-1500:]}")
    res["wall"] = time.time() - t0
    return res


def _is_expr(o):
    return isinstance(o, tuple)


def _module(name, spec, res):
    objs = MODULES[name]()
    objs = [(o[0], np.asarray(o[1], dtype=float)) if _is_expr(o) else o for o in objs]
    scalar = spec.get("scalar", "float64")
    opts = dict(STRICT_OPTS, scalar_type=scalar)
    # FFCx compiles forms and expressions through separate lists; keep the relative order inside each kind
    forms = [o for o in objs if not _is_expr(o)]
    exprs = [o for o in objs if _is_expr(o)]
    c_text = gen.compile_c(forms + exprs, opts)[1]
    py_text = gen.compile_numba(forms + exprs, opts)
    mc = cfront.parse_c(c_text)
    try:
        mp = pyfront.parse_numba(py_text)
    except pyfront.InvalidPython as e:
        res["violations"].append({"key": f"{name}:invalid-python", "what": str(e), "replay": None})
        return
    spec2 = {"tier": spec.get("tier", "quick"), "A": {"options": opts}, "B": {"options": opts, "lang": "numba"}, "mode": "rel", "rel": 1e-9,
             "what": "C backend vs numba backend, several objects in one module"}
    # ---- forms: match descriptors by signature
    ids_c = gen.integral_descs(mc)
    fds_c = {f.signature: f for f in gen.form_descs(mc)}
    fds_p = {f.signature: f for f in mp.forms}
    for fi, form in enumerate(forms):
        sig = uflref.FormRef(form, scalar).fd.original_form.signature()
        fc, fp = fds_c.get(sig), fds_p.get(sig)
        if fc is None or fp is None:
            res["violations"].append({"key": f"{name}:form{fi}:missing", "what": f"form {fi} of the module has no descriptor in the {'C' if fc is None else 'numba'} output", "replay": None})
            continue
        A = {"lang": "c", "text": c_text, "module": mc, "scalar": scalar, "fd": fc,
             "entries": [(it, sid, kn, ids_c[kn], mc.kernels[ids_c[kn].tt[scalar]] if ids_c[kn].tt.get(scalar) else None) for it, sid, kn in fc.entries()]}
        B = {"lang": "py", "text": py_text, "module": mp, "scalar": scalar, "fd": fp,
             "entries": [(it, sid, kn, mp.integrals[kn], mp.kernels[mp.integrals[kn].kernel_name]) for it, sid, kn in fp.entries()]}
        sub = _new_res(f"{name}[form{fi}]")
        kvk._compare_built(f"{name}[form{fi}]", spec2, sub, form, A, B)
        for k in ("entries", "kernels", "configs", "twins_run", "twins_ok"):
            res[k] += sub[k]
        for k in ("inconclusive", "violations", "harness", "outside", "samples"):
            res[k].extend(sub[k])
        for kq, d in sub["queries"].items():
            for v, n in d.items():
                res["queries"].setdefault(kq, {})[v] = res["queries"].get(kq, {}).get(v, 0) + n
        res["solver_s"] += sub["solver_s"]
        # a module-level replay: violations found in a multi-object module cannot be replayed form by form
        for v in res["violations"]:
            if isinstance(v.get("replay"), dict) and v["replay"].get("kind") == "kvk":
                v["replay"] = {"kind": "multimod", "name": name, "scalar": scalar}
    # ---- expressions: C order == numba order == request order
    eds_c = list(gen.expression_descs(mc).items())
    eds_p = list(mp.expressions.items())
    if len(eds_c) != len(exprs) or len(eds_p) != len(exprs):
        res["violations"].append({"key": f"{name}:expression-count", "what": f"{len(exprs)} expressions requested, C defines {len(eds_c)}, numba defines {len(eds_p)}", "replay": None})
        return
    stats = eqcheck.QStats()
    lib = None
    by_name_p = dict(eds_p)
    for ei, (expr, pts) in enumerate(exprs):
        en, ed = eds_c[ei]
        if en not in by_name_p:
            res["violations"].append({"key": f"{name}:expr{ei}:missing", "what": f"numba module lacks {en}", "replay": None})
            continue
        kc = mc.kernels[gen.refname(ed[f"tabulate_tensor_{scalar}"])]
        kp = mp.kernels[by_name_p[en]["tabulate_tensor"]]
        dom, nw, nc, nx, nA = exprcheck._layout(expr, pts, scalar.startswith("complex"))
        ctx = Ctx()
        inp = uflref.Inputs(ctx, nw, nc, nx, scalar.startswith("complex"))
        ra = ksym.run_kernel(kc, ctx, inp, nA)
        rb = ksym.run_kernel(kp, ctx, inp, nA)
        res["kernels"] += 2
        pa, pb = split_parts(ra.A), split_parts(rb.A)
        cs = max(coeff_scale(pa), 1e-300)
        for (lab, a), (_, b) in zip(pa, pb):
            res["entries"] += 1
            D = b - a
            verdict, _ = eqcheck.qrel(ctx, D, a, 1e-9, FLOOR_STRICT * cs, stats)
            if verdict == "unsat":
                continue
            if verdict != "sat":
                res["inconclusive"].append(f"{name} expr{ei} A[{lab}]: {verdict}")
                continue
            env = eqcheck.witness_rel(ctx, D, a, 1e-9, FLOOR_STRICT * cs, None, lambda e: True, tries=40)
            if env is None:
                res["inconclusive"].append(f"{name} expr{ei} A[{lab}]: sat, no witness")
                continue
            if lib is None:
                lib = ksym.build_so(c_text, "mm")
            w, cc, x = ksym.pack(inp, env)
            va = ksym.call_c_kernel(lib, kc, nA, w, cc, x)
            vb = pyfront.call_numba_kernel(py_text, kp, nA, inp, env, (0, 0), (0, 0))
            idx = int(lab.split(".")[0])
            if abs(va[idx] - vb[idx]) > 1e-9 * max(abs(va[idx]), abs(vb[idx]), 1e-30):
                res["violations"].append({"key": f"{name}:expr{ei}:A[{lab}]",
                                          "what": f"expression {ei} of the module: C kernel gives {va[idx]!r}, numba kernel gives {vb[idx]!r} at a solver-guided input",
                                          "replay": {"kind": "multimod", "name": name, "scalar": scalar}})
                break
            res["inconclusive"].append(f"{name} expr{ei} A[{lab}]: sat, not reproduced")
    for kq, d in stats.q.items():
        for v, n in d.items():
            res["queries"].setdefault(kq, {})[v] = res["queries"].get(kq, {}).get(v, 0) + n
    res["solver_s"] += stats.secs
    res["samples"].append({"module": name, "objects": [("expression" if _is_expr(o) else "form") for o in forms + exprs]})


def replay_multimod(p):
    """Stand-alone replay: compile the module with both backends, run every kernel (gcc build /
    plain Python) on one fixed input and compare."""
    name, scalar = p["name"], p.get("scalar", "float64")
    r = module_case(name, {"tier": "quick", "scalar": scalar})
    for v in r["violations"][:4]:
        print(v["key"], "::", v["what"])
    for h in r["harness"][:2]:
        print("harness:", h[:300])
    print("REPRODUCED" if r["violations"] else "not reproduced on this tree")
    return 1 if r["violations"] else 0
