"""C04: expression kernels vs the UFL expression evaluated at the given points."""

from __future__ import annotations

import time
import traceback

import basix
import basix.ufl
import numpy as np
import ufl
import ufl.algorithms
import ufl.classes as uc
from ufl.algorithms.apply_algebra_lowering import apply_algebra_lowering
from ufl.algorithms.apply_derivatives import apply_derivatives
from ufl.algorithms.apply_function_pullbacks import apply_function_pullbacks
from ufl.algorithms.apply_geometry_lowering import apply_geometry_lowering
from ufl.algorithms.remove_complex_nodes import remove_complex_nodes

from . import cfront, eqcheck, gen, ksym, uflref
from .corpus import mesh, space
from .formcheck import REL_STRICT, STRICT_OPTS, compare_values, full_env, geometry_env, to_flat, valid_env
from .kir import BudgetExceeded
from .poly import CPoly, Ctx, KsymError, Poly

class _Reg(dict):
    def __missing__(self, name):
        if name.startswith("randexpr:"):
            return dict(name=name, build=lambda n=name: random_expression(n), tags={"rand"})
        raise KeyError(name)


EXPRS: dict[str, dict] = _Reg()


def random_expression(name):
    """Grammar-generated expression + points, deterministic in (seed, index)."""
    import random

    _, seed, i = name.split(":")
    r = random.Random(int(seed) * 999983 + int(i) * 104729 + 5)
    cell = r.choice(["triangle", "triangle", "quadrilateral", "tetrahedron", "interval"])
    gd = {"interval": 1, "triangle": 2, "quadrilateral": 2, "tetrahedron": 3}[cell]
    m = mesh(cell, gdeg=2 if (cell == "triangle" and r.random() < 0.15) else 1)
    quad = cell == "quadrilateral"
    def sp():
        fam, deg = r.choice([("Q" if quad else "Lagrange", 1), ("DQ" if quad else "DG", 1), ("DQ" if quad else "DG", 0)] + ([("Lagrange", 2)] if not quad and cell != "tetrahedron" else []))
        shape = (gd,) if (gd > 1 and deg >= 1 and r.random() < 0.3) else None
        return space(m, fam, deg, shape=shape)
    coefs = [ufl.Coefficient(sp()) for _ in range(r.randint(1, 3))]
    consts = [ufl.Constant(m, shape=r.choice([(), (gd,), (2, 2), (2, 2, 2)])) for _ in range(r.randint(0, 2))]
    facet = gd > 1 and r.random() < 0.3
    x = ufl.SpatialCoordinate(m)
    n = ufl.FacetNormal(m) if facet else None
    rank1 = r.random() < 0.35
    u = ufl.TrialFunction(space(m, "Q" if quad else "Lagrange", r.choice([1, 2]) if not quad and cell != "tetrahedron" else 1)) if rank1 else None

    def atom():
        k = r.choice(["coef", "coef", "dcoef", "x", "lit"] + (["const"] if consts else []) + (["n"] if n is not None else []))
        if k == "coef":
            f = r.choice(coefs)
            return f[r.randrange(gd)] if f.ufl_shape else f
        if k == "dcoef":
            f = r.choice(coefs)
            if f.ufl_function_space().ufl_element().embedded_superdegree == 0:
                return f[0] if f.ufl_shape else f
            g = ufl.grad(f)
            return g[tuple(r.randrange(s_) for s_ in g.ufl_shape)]
        if k == "x":
            return x[r.randrange(gd)]
        if k == "const":
            c = r.choice(consts)
            return c[tuple(r.randrange(s_) for s_ in c.ufl_shape)] if c.ufl_shape else c
        if k == "n":
            return n[r.randrange(gd)]
        return ufl.as_ufl(r.choice([0.5, -2.0, 3.0]))

    def scal(d):
        if d == 0 or r.random() < 0.35:
            return atom()
        op = r.choice(["add", "mul", "mul", "sub", "abs", "pow", "cond", "sqrt"])
        a = scal(d - 1)
        if op == "add":
            return a + scal(d - 1)
        if op == "mul":
            return a * scal(d - 1)
        if op == "sub":
            return a - scal(d - 1)
        if op == "abs":
            return abs(a)
        if op == "pow":
            return a ** r.choice([2, 3])
        if op == "sqrt":
            return ufl.sqrt(a * a + 1.0)
        return ufl.conditional(ufl.lt(a, atom()), scal(d - 1), 2.0)

    def comp():
        sc = scal(r.randint(0, 2))
        if rank1:
            up = ufl.grad(u)[r.randrange(gd)] if r.random() < 0.4 else u
            return sc * up
        return sc

    shape = r.choice([(), (), (2,), (gd,), (2, 2)])
    if shape == ():
        e = comp()
    elif len(shape) == 1:
        e = ufl.as_vector([comp() for _ in range(shape[0])])
    else:
        e = ufl.as_tensor([[comp() for _ in range(shape[1])] for _ in range(shape[0])])
    npts = r.randint(1, 3)
    edim = gd - 1 if facet else gd
    pts = []
    for _ in range(npts):
        if cell in ("quadrilateral", "interval") or (facet and edim == 1):
            pts.append([round(r.uniform(0.05, 0.95), 3) for _ in range(edim)])
        else:
            p = [r.uniform(0.05, 0.9) for _ in range(edim)]
            tot = sum(p)
            if tot > 0.9:
                p = [v * 0.85 / tot for v in p]
            pts.append([round(v, 3) for v in p])
    return e, np.array(pts)


def ereg(name, tags=""):
    def deco(fn):
        EXPRS[name] = dict(name=name, build=fn, tags=set(tags.split()))
        return fn

    return deco


def select(quick=False):
    return [n for n, e in EXPRS.items() if not quick or "q" in e["tags"]]


TRI = np.array([[0.1, 0.2], [0.5, 0.25], [0.0, 1.0]])
TET = np.array([[0.1, 0.2, 0.3], [0.25, 0.25, 0.25]])
QUAD = np.array([[0.3, 0.7], [1.0, 0.5]])
SEG = np.array([[0.2], [0.93]])
FTRI = np.array([[0.2, 0.3], [0.6, 0.1]])


@ereg("grad_P1_triangle", "q")
def _():
    m = mesh("triangle")
    f = ufl.Coefficient(space(m))
    return ufl.grad(f), TRI


@ereg("grad_P2_triangle", "q")
def _():
    m = mesh("triangle")
    f = ufl.Coefficient(space(m, deg=2))
    k = ufl.Constant(m)
    return k * ufl.grad(f), TRI


@ereg("scalar_product_triangle", "q")
def _():
    m = mesh("triangle")
    f = ufl.Coefficient(space(m))
    g = ufl.Coefficient(space(m, deg=2))
    k = ufl.Constant(m, shape=(2,))
    return f * g * k[1] + k[0], TRI


@ereg("tensor_outer_triangle", "q")
def _():
    m = mesh("triangle")
    f = ufl.Coefficient(space(m))
    g = ufl.Coefficient(space(m, shape=(2,)))
    return ufl.outer(ufl.grad(f), g), TRI[:2]


@ereg("rank1_interp_triangle", "q")
def _():
    m = mesh("triangle")
    V = space(m)
    u = ufl.TrialFunction(V)
    g = ufl.Coefficient(space(m, shape=(2,)))
    return g * u, TRI[:2]


@ereg("rank1_grad_tetrahedron", "q")
def _():
    m = mesh("tetrahedron")
    V = space(m)
    u = ufl.TrialFunction(V)
    return ufl.grad(u), TET


@ereg("rank1_vector_argument", "")
def _():
    m = mesh("triangle")
    V = space(m, shape=(2,))
    u = ufl.TrialFunction(V)
    f = ufl.Coefficient(space(m))
    return f * ufl.div(u), TRI[:2]


@ereg("x_curved_triangle", "q")
def _():
    m = mesh("triangle", gdeg=2)
    f = ufl.Coefficient(space(m))
    x = ufl.SpatialCoordinate(m)
    return ufl.as_vector([x[0] * f, x[1]]), TRI[:2]


@ereg("grad_curved_triangle", "")
def _():
    m = mesh("triangle", gdeg=2)
    f = ufl.Coefficient(space(m))
    return ufl.grad(f), TRI[:2]


@ereg("grad_Q1_quadrilateral", "q")
def _():
    m = mesh("quadrilateral")
    f = ufl.Coefficient(space(m, "Q", 1))
    return ufl.grad(f), QUAD


@ereg("nonlinear_triangle", "q")
def _():
    m = mesh("triangle")
    f = ufl.Coefficient(space(m))
    k = ufl.Constant(m)
    return ufl.conditional(ufl.lt(f, k), f * f, ufl.sqrt(f)) + abs(f), TRI[:2]


@ereg("rt_value_triangle", "q")
def _():
    m = mesh("triangle")
    f = ufl.Coefficient(space(m, "RT", 1))
    return f, TRI[:2]


@ereg("mixed_coefficient_triangle", "")
def _():
    m = mesh("triangle")
    el = basix.ufl.mixed_element([basix.ufl.element("Lagrange", "triangle", 2, shape=(2,)), basix.ufl.element("Lagrange", "triangle", 1)])
    w = ufl.Coefficient(ufl.FunctionSpace(m, el))
    u, p = ufl.split(w)
    return p * u + ufl.grad(p), TRI[:2]


@ereg("three_coefficients_one_dropped", "q")
def _():
    m = mesh("triangle")
    f = ufl.Coefficient(space(m))
    g = ufl.Coefficient(space(m))
    h = ufl.Coefficient(space(m, deg=2))
    return f * h + 0 * g, TRI[:2]


@ereg("facet_x_triangle", "q")
def _():
    m = mesh("triangle")
    return ufl.SpatialCoordinate(m), SEG


@ereg("facet_normal_triangle", "q")
def _():
    m = mesh("triangle")
    f = ufl.Coefficient(space(m))
    return f * ufl.FacetNormal(m), SEG


@ereg("facet_coef_tetrahedron", "q")
def _():
    m = mesh("tetrahedron")
    f = ufl.Coefficient(space(m, deg=2))
    return ufl.as_vector([f, ufl.FacetNormal(m)[2]]), FTRI


@ereg("facet_normal_manifold", "")
def _():
    m = mesh("triangle", gdim=3)
    return ufl.FacetNormal(m), np.array([[0.5]])


@ereg("facet_rank1_quadrilateral", "q")
def _():
    m = mesh("quadrilateral")
    u = ufl.TrialFunction(space(m, "Q", 1))
    return ufl.dot(ufl.grad(u), ufl.FacetNormal(m)), SEG


@ereg("facet_rank1_P2_triangle", "q")
def _():
    m = mesh("triangle")
    u = ufl.TrialFunction(space(m, deg=2))
    return ufl.as_vector([u, u.dx(0)]), SEG


@ereg("facet_rank1_P2_tetrahedron", "")
def _():
    m = mesh("tetrahedron")
    u = ufl.TrialFunction(space(m, deg=2))
    f = ufl.Coefficient(space(m))
    return f * u, FTRI


@ereg("facet_coef_P2_triangle_perm", "q")
def _():
    m = mesh("triangle")
    f = ufl.Coefficient(space(m, deg=2))
    g = ufl.Coefficient(space(m, "DG", 1))
    return ufl.as_vector([f * g, f.dx(1)]), SEG


@ereg("dropped_coefficient_before_survivor", "q")
def _():
    m = mesh("triangle")
    k0 = ufl.Coefficient(space(m, "DG", 0))
    g = ufl.Coefficient(space(m))
    h = ufl.Coefficient(space(m, deg=2))
    x = ufl.SpatialCoordinate(m)
    return g * (x[0] ** 2 + k0).dx(0) + h * ufl.grad(k0)[1] + h, TRI[:2]


@ereg("rank3_constant_expression", "q")
def _():
    m = mesh("triangle")
    f = ufl.Coefficient(space(m))
    K = ufl.Constant(m, shape=(2, 2, 3))
    s = ufl.Constant(m)
    return ufl.as_vector([K[1, 0, 2] * f + s, K[0, 1, 1], K[1, 1, 0] * f]), TRI[:2]


def lower_expression(expr, complex_mode=False):
    """The documented preprocessing sequence for expressions (written from UFL's API)."""
    pg = (uc.Jacobian,)
    e = apply_algebra_lowering(expr)
    e = apply_derivatives(e)
    e = apply_function_pullbacks(e)
    e = apply_geometry_lowering(e, pg)
    e = apply_derivatives(e)
    e = apply_geometry_lowering(e, pg)
    e = apply_derivatives(e)
    if not complex_mode:
        e = remove_complex_nodes(e)
    return e


def _new_res(name):
    return {"name": name, "entries": 0, "kernels": 0, "configs": 0, "queries": {}, "solver_s": 0.0, "inconclusive": [],
            "violations": [], "harness": [], "outside": [], "selfval": 0, "twins_run": 0, "twins_ok": 0, "samples": [],
            "extra": {"descriptor_fields_compared": 0}}


def expr_case(name, spec):
    t0 = time.time()
    res = _new_res(name)
    try:
        _expr(name, spec, res)
    except BudgetExceeded as e:
        res["outside"].append(f"{name}: polynomial size {e} over budget")
    except gen.Rejected as e:
        res["outside"].append(f"{name}: rejected by FFCx with {e}")
    except uflref.OracleUnsupported as e:
        res["outside"].append(f"{name}: oracle does not cover: {e}")
    except RecursionError:
        res["outside"].append(f"{name}: expression too deep for the recursive evaluators (RecursionError) - not analysed")
    except KsymError as e:
        res["harness"].append(f"{name}: ksym: {e}")
    except Exception as e:
        res["harness"].append(f"{name}: {type(e).__name__}: {e}\n{traceback.format_exc()[-1500:]}")
    res["wall"] = time.time() - t0
    return res


def setup_expression(name, scalar="float64", options=None):
    expr, pts = EXPRS[name]["build"]()
    pts = np.asarray(pts, dtype=float)
    opts = dict(options or STRICT_OPTS)
    opts["scalar_type"] = scalar
    h, c = gen.compile_c([(expr, pts)], opts)
    m = cfront.parse_c(c)
    eds = gen.expression_descs(m)
    ename, ed = next(iter(eds.items()))
    kname = gen.refname(ed[f"tabulate_tensor_{scalar}"])
    kern = m.kernels[kname]
    return expr, pts, c, m, ename, ed, kern


def _expr(name, spec, res):
    tier = spec.get("tier", "quick")
    scalar = spec.get("scalar", "float64")
    cm = scalar.startswith("complex")
    expr, pts, c, m, ename, ed, kern = setup_expression(name, scalar)
    low = lower_expression(expr, cm)
    doms = ufl.domain.extract_domains(expr)
    if not doms:
        raise uflref.OracleUnsupported("expression without a domain (literals only)")
    dom = max(doms, key=lambda d: d.topological_dimension)
    cellname = dom.ufl_cell().cellname
    cel = dom.ufl_coordinate_element()
    gdim = cel.reference_value_shape[0]
    tdim = dom.topological_dimension
    args = sorted(ufl.algorithms.extract_arguments(low), key=lambda a: a.number())
    arg_elements = [a.ufl_function_space().ufl_element() for a in args]
    coeffs = list(ufl.algorithms.extract_coefficients(low))
    coeff_elements = [f.ufl_function_space().ufl_element() for f in coeffs]
    consts = list(ufl.algorithms.analysis.extract_constants(low))
    orig_coeffs = list(ufl.algorithms.extract_coefficients(expr))
    nw = sum(e.dim for e in coeff_elements)
    nc = sum(int(np.prod(k.ufl_shape, dtype=int)) for k in consts)
    nx = 3 * (cel.dim // gdim)
    vshape = tuple(expr.ufl_shape)
    ncomp = int(np.prod(vshape, dtype=int)) if vshape else 1
    ndofs = int(np.prod([e.dim for e in arg_elements], dtype=int)) if arg_elements else 1
    npts = len(pts)
    nA = npts * ncomp * ndofs
    edim = pts.shape[1]

    # ---- descriptor (concrete facts read from the emitted initialiser)
    def viol(key, what):
        res["violations"].append({"key": f"{name}:{key}", "what": what, "replay": None})

    dpoints = gen.deref(m, ed["points"])
    dshape = gen.deref(m, ed["value_shape"]) or []
    docp = gen.deref(m, ed["original_coefficient_positions"]) or []
    want = [
        ("num_points", ed["num_points"], npts),
        ("entity_dimension", ed["entity_dimension"], edim),
        ("points", [float(x) for x in dpoints], [float(x) for x in pts.flatten()]),
        ("value_shape", list(dshape), list(vshape)),
        ("num_components", ed["num_components"], len(vshape)),
        ("rank", ed["rank"], len(args)),
        ("num_coefficients", ed["num_coefficients"], len(coeffs)),
        ("num_constants", ed["num_constants"], len(consts)),
        ("original_coefficient_positions", list(docp), [orig_coeffs.index(f) for f in coeffs]),
        ("coefficient_names", list(gen.deref(m, ed["coefficient_names"]) or []), [f"w{j}" for j in range(len(coeffs))]),
        ("constant_names", list(gen.deref(m, ed["constant_names"]) or []), [f"c{j}" for j in range(len(consts))]),
        ("coordinate_element_hash", int(ed["coordinate_element_hash"]), int(cel.basix_hash())),
    ]
    for fld, got, exp in want:
        res["extra"]["descriptor_fields_compared"] += 1
        if got != exp:
            viol(f"field:{fld}", f"ufcx_expression.{fld} = {got!r}, the expression has {exp!r}")
    for st in ("float32", "float64", "complex64", "complex128"):
        v = gen.refname(ed.get(f"tabulate_tensor_{st}"))
        if (v not in (None, "NULL")) != (st == scalar):
            viol(f"slot:{st}", f"tabulate_tensor_{st} is {'set' if v not in (None, 'NULL') else 'NULL'} for scalar type {scalar}")

    # ---- values
    lib = ksym.build_so(c, "x")
    stats = eqcheck.QStats()
    if edim == tdim:
        cfgs = [((0, 0), (0, 0))]
    else:
        nfac = len(basix.topology(basix.CellType[cellname])[tdim - 1])
        facet_kind = {1: "interval", 2: ("quadrilateral" if cellname == "hexahedron" else "triangle")}.get(edim, "point")
        perms = {"interval": [0, 1], "triangle": [0, 1, 2, 3, 4, 5], "quadrilateral": [0, 1, 2, 3, 4, 5, 6, 7]}.get(facet_kind, [0])
        cfgs = [((e, 0), (p, 0)) for e in range(nfac) for p in perms]
        if tier == "quick":
            cfgs = (cfgs[:4] + cfgs[-1:]) if edim == 1 else [cfgs[0], cfgs[1], cfgs[len(perms) + 2], cfgs[2 * len(perms) + 3], cfgs[-1], cfgs[-2]]
    for ci, (ents, perm) in enumerate(cfgs):
        ctx = Ctx()
        inp = uflref.Inputs(ctx, nw, nc, nx, cm)
        kr = ksym.run_kernel(kern, ctx, inp, nA, entities=ents, perms=perm)
        res["kernels"] += 1
        oob = [e for e in kr.interp.events if e.kind in ("oob_read", "oob_write") and e.array in ("A", "w", "c", "coordinate_dofs")]
        if oob:
            # the kernel leaves the extents the descriptor implies: confirm with ASan on exact-size buffers
            from .kernelprops import asan_run

            ext = {"A": nA, "w": nw, "c": nc, "coordinate_dofs": nx, "entity_local_index": 1 if edim < tdim else 0, "quadrature_permutation": 1 if edim < tdim else 0}
            failed, log = asan_run(c, kern, ext, ents, perm)
            if failed:
                res["violations"].append({"key": f"{name}:out-of-bounds:{oob[0].array}", "what": f"expression kernel accesses {oob[0].array}{oob[0].index} but the descriptor implies {len(getattr(inp, 'W', [])) if oob[0].array == 'w' else oob[0].extent} entries (num_coefficients/positions vs kernel offsets disagree); confirmed by ASan",
                                          "replay": None})
            else:
                res["inconclusive"].append(f"{name}: executor saw {oob[0]} but the sanitizer run is clean")
            continue
        ev = uflref.Evaluator(ctx, inp, itype="expression", cellname=cellname, coord_element=cel, arg_elements=arg_elements,
                              coefficients=coeffs, coeff_elements=coeff_elements, constants=consts, entities=ents, complex_mode=cm)
        epts = pts
        if edim < tdim and perm[0] == 1 and edim == 1:
            epts = 1.0 - pts  # one reflection of the reference interval
        elif edim < tdim and edim == 2 and perm[0]:
            # ufcx.h: code N = N div 2 rotations, then N mod 2 reflections of the reference facet; FFCx's documented
            # elementary maps: triangle rotation (x,y)->(y,1-x-y), quadrilateral rotation (x,y)->(y,1-x), reflection (x,y)->(y,x)
            epts = np.array(pts, dtype=float)
            for _ in range(perm[0] // 2):
                epts = np.array([[q[1], 1 - q[0] - q[1]] if facet_kind == "triangle" else [q[1], 1 - q[0]] for q in epts])
            for _ in range(perm[0] % 2):
                epts = np.array([[q[1], q[0]] for q in epts])
        ev.set_points(epts, np.ones(npts), entity_dim=edim)
        zero = CPoly(ctx.const(0), ctx.const(0)) if cm else ctx.const(0)
        Rf = [zero] * nA
        comps = list(np.ndindex(*vshape)) if vshape else [()]
        for p in range(npts):
            for k, comp in enumerate(comps):
                av = ev.evaluate(low, p, comp)
                for key, val in av.d.items():
                    dof = 0
                    for num, dd in key:
                        dof = dd if len(args) == 1 else dof * arg_elements[num].dim + dd
                    idx = (p * ncomp + k) * ndofs + dof
                    Rf[idx] = Rf[idx] + val
        res["configs"] += 1
        label = f"{name}:ents={ents[0]}:perm={perm[0]}"
        if ci == 0:
            for s_ in (1, 2):
                env = valid_env(ctx, cel, cellname, 1, s_)
                if env is None:
                    res["inconclusive"].append(f"{label}: no concrete input inside the assumptions for self-validation")
                    continue
                w, cc, x = ksym.pack(inp, env)
                Ac = ksym.call_c_kernel(lib, kern, nA, w, cc, x, ents, perm)
                val = ctx.evaluator(env)
                As = np.array([complex(v.eval_with(val)) if isinstance(v, CPoly) else v.eval_with(val) for v in kr.A])
                if nA and not (np.max(np.abs(Ac - As)) <= 1e-8 * max(1.0, float(np.max(np.abs(Ac))))) and np.all(np.isfinite(Ac)):
                    res["harness"].append(f"{label}: translator self-validation failed")
                res["selfval"] += 1
        base_env = geometry_env(cel, cellname, 1, 0)
        cands = compare_values(ctx, kr.A, Rf, REL_STRICT, stats, res, label, base_env=base_env)
        for lab, env, D, rpoly, rel_, floor_ in cands[:2]:
            w, cc, x = ksym.pack(inp, env)
            Ac = ksym.call_c_kernel(lib, kern, nA, w, cc, x, ents, perm)
            idx = int(lab.split(".")[0])
            kval = Ac[idx].imag if lab.endswith(".im") else (Ac[idx].real if lab.endswith(".re") else Ac[idx])
            rval = rpoly.eval(env)
            tol = eqcheck.allowance(ctx, D, rpoly, rel_, floor_, env)
            if abs(kval - rval) > tol and np.isfinite(kval):
                p_, r_ = divmod(idx, ncomp * ndofs)
                res["violations"].append({"key": f"{name}:ents={ents[0]}:perm={perm[0]}:A[{lab}]",
                                          "what": f"expression kernel gives {kval!r} at point {p_}, flat (component,dof) {r_}; the expression evaluates to {rval!r} (tol {tol:.3g})",
                                          "replay": {"kind": "expr", "name": name, "scalar": scalar, "ents": list(ents), "perm": list(perm), "entry": lab, "env": env, "tol": tol, "expected": repr(rval)}})
            else:
                res["inconclusive"].append(f"{label} entry {lab}: sat, not reproduced")
        if ci == 0 and nA:
            # "ADDS to A[point][component][dof]": the increment from a symbolic initial A equals the value from a zero A
            from .formcheck import split_parts as _sp

            ctx2 = Ctx()
            inp2 = uflref.Inputs(ctx2, nw, nc, nx, cm)
            k0 = ksym.run_kernel(kern, ctx2, inp2, nA, entities=ents, perms=perm)
            k1 = ksym.run_kernel(kern, ctx2, inp2, nA, entities=ents, perms=perm, symbolic_A0=True)
            a0 = ksym.make_A0(ctx2, nA, cm, True)
            notadd = None
            for (lab, p0), (_, p1), (_, pa) in zip(_sp(k0.A), _sp(k1.A), _sp(a0)):
                v_, _m = eqcheck.qident(ctx2, p1 - pa - p0, stats)
                if v_ == "sat":
                    notadd = lab
                    break
            if notadd is not None:
                rng = np.random.RandomState(5)
                env = {v.name: float(np.round(rng.uniform(0.3, 1.4), 3)) for v in ctx2.vars if v.defn is None and v.kind != "A0"}
                w, cc, x = ksym.pack(inp2, env)
                E = ksym.call_c_kernel(lib, kern, nA, w, cc, x, ents, perm, A0=np.zeros(nA))
                A2 = ksym.call_c_kernel(lib, kern, nA, w, cc, x, ents, perm, A0=np.full(nA, 7.25))
                d = np.abs((A2 - 7.25) - E)
                if float(np.max(d)) > 1e-9 * max(1.0, float(np.max(np.abs(E)))):
                    i_ = int(np.argmax(d))
                    res["violations"].append({"key": f"{name}:A[{i_}]:not-added",
                                              "what": f"expression kernel does not ADD the value to A: from A=0 it leaves {E[i_]!r}, from A=7.25 it leaves {A2[i_]!r} (expected {7.25 + E[i_]!r})",
                                              "replay": {"kind": "expr_purity", "name": name, "scalar": scalar, "ents": list(ents), "perm": list(perm)}})
                else:
                    res["inconclusive"].append(f"{label}: increment differs symbolically at A[{notadd}] but not on the build")
        if ci == 0 and nA:
            from .formcheck import split_parts, unify, coeff_scale, FLOOR_STRICT
            from fractions import Fraction

            res["twins_run"] += 1
            KU, RU = unify(ctx, kr.A, Rf)
            kp, rp = split_parts(KU), split_parts(RU)
            j = max((i for i, (_, p) in enumerate(kp) if p.t), key=lambda i: max(abs(float(c)) for c in kp[i][1].t.values()), default=None)
            if j is None:
                res["twins_ok"] += 1
            else:
                mono, cf = max(kp[j][1].t.items(), key=lambda kv: abs(kv[1]) * eqcheck.mono_bound(ctx, kv[0]))
                pert = Poly({mono: cf * Fraction(1, 1000)}, ctx)
                v, _ = eqcheck.qrel(ctx, kp[j][1] + pert - rp[j][1], rp[j][1], REL_STRICT, FLOOR_STRICT * max(coeff_scale(rp), 1e-300), None)
                if v == "sat":
                    res["twins_ok"] += 1
                else:
                    res["harness"].append(f"{label}: twin not detected")
        if len(res["samples"]) < 2:
            res["samples"].append({"case": label, "points": pts.tolist(), "value_shape": list(vshape), "rank": len(args), "A_entries": nA})
    res["queries"] = stats.q
    res["solver_s"] = stats.secs


def replay_expr(p):
    name = p["name"]
    expr, pts, c, m, ename, ed, kern = setup_expression(name, p.get("scalar", "float64"))
    lib = ksym.build_so(c, "xr")
    env = {k: float(v) for k, v in p["env"].items()}
    names = sorted(env)
    nw = len([n for n in names if n.startswith("w") and not n.endswith("i")])
    nc = len([n for n in names if n.startswith("c") and not n.endswith("i")])
    nx = len([n for n in names if n.startswith("x")])
    ctx = Ctx()
    inp = uflref.Inputs(ctx, nw, nc, nx, p.get("scalar", "float64").startswith("complex"))
    w, cc, x = ksym.pack(inp, env)
    nA = 4096
    Ac = ksym.call_c_kernel(lib, kern, nA, w, cc, x, p["ents"], p["perm"])
    idx = int(p["entry"].split(".")[0])
    kval = Ac[idx]
    print(f"expression {name}: A[{p['entry']}] compiled kernel {kval!r}, expression value {p['expected']} (tol {p['tol']})")
    bad = abs(complex(kval).real - float(p["expected"])) > p["tol"] if not p["entry"].endswith(".im") else abs(complex(kval).imag - float(p["expected"])) > p["tol"]
    print("REPRODUCED" if bad else "not reproduced")
    return 1 if bad else 0


# ---------------------------------------------------------------------------
# C07 on expression kernels: A <- A + T with T independent of the previous contents of A


def _layout(expr, pts, cm):
    low = lower_expression(expr, cm)
    doms = ufl.domain.extract_domains(expr)
    if not doms:
        raise uflref.OracleUnsupported("expression without a domain (literals only)")
    dom = max(doms, key=lambda d: d.topological_dimension)
    cel = dom.ufl_coordinate_element()
    gdim = cel.reference_value_shape[0]
    args = sorted(ufl.algorithms.extract_arguments(low), key=lambda a: a.number())
    coeffs = list(ufl.algorithms.extract_coefficients(low))
    consts = list(ufl.algorithms.analysis.extract_constants(low))
    nw = sum(f.ufl_function_space().ufl_element().dim for f in coeffs)
    nc = sum(int(np.prod(k.ufl_shape, dtype=int)) for k in consts)
    nx = 3 * (cel.dim // gdim)
    vshape = tuple(expr.ufl_shape)
    ncomp = int(np.prod(vshape, dtype=int)) if vshape else 1
    ndofs = int(np.prod([a.ufl_function_space().ufl_element().dim for a in args], dtype=int)) if args else 1
    return dom, nw, nc, nx, len(pts) * ncomp * ndofs


def _expr_purity(name, spec, res):
    from .poly import parts

    scalar = spec.get("scalar", "float64")
    cm = scalar.startswith("complex")
    expr, pts, c, m, ename, ed, kern = setup_expression(name, scalar)
    dom, nw, nc, nx, nA = _layout(expr, pts, cm)
    tdim = dom.topological_dimension
    cellname = dom.ufl_cell().cellname
    edim = pts.shape[1]
    stats = eqcheck.QStats()
    cfgs = [((0, 0), (0, 0))]
    if edim != tdim:
        nfac = len(basix.topology(basix.CellType[cellname])[tdim - 1])
        cfgs = [((0, 0), (0, 0)), ((nfac - 1, 0), (1 if edim == 1 else 0, 0))]
    for p in kern.params:
        if p["name"] in ("w", "c", "coordinate_dofs", "entity_local_index", "quadrature_permutation") and not p["const"]:
            res["violations"].append({"key": f"{name}:param-not-const:{p['name']}", "what": f"input parameter {p['name']} of the expression kernel is not pointer-to-const", "replay": None})
    for ents, perm in cfgs:
        ctx = Ctx()
        inp = uflref.Inputs(ctx, nw, nc, nx, cm)
        kr = ksym.run_kernel(kern, ctx, inp, nA, entities=ents, perms=perm, symbolic_A0=True)
        res["kernels"] += 1
        res["configs"] += 1
        for e in kr.interp.events:
            if e.kind == "write_input":
                res["violations"].append({"key": f"{name}:write:{e.array}", "what": f"expression kernel writes to input/table {e.array} (line {e.line})", "replay": None})
        for s_ in kr.interp.statics_nonconst:
            res["violations"].append({"key": f"{name}:static:{s_}", "what": f"non-const static {s_} in an expression kernel", "replay": None})
        hav = {v.id for v in ctx.vars if v.kind == "havoc"}
        dep = []
        for i, val in enumerate(kr.A):
            pr = parts(val)
            a0r = ctx.inp(f"A0_{i}r", "A0") if cm else ctx.inp(f"A0_{i}", "A0")
            a0i = ctx.inp(f"A0_{i}i", "A0") if cm else None
            for part, p in zip(("re", "im"), pr):
                if part == "im" and not cm:
                    continue
                T = p - (a0r if part == "re" else a0i)
                res["entries"] += 1
                verdict, _ = eqcheck.qdep(ctx, T, ("A0_",), stats)
                if verdict == "sat":
                    dep.append(i)
                elif verdict != "unsat":
                    res["inconclusive"].append(f"{name} A[{i}]: {verdict}")
                if hav and (T.vars() & hav):
                    res["violations"].append({"key": f"{name}:A[{i}]:uninitialised", "what": f"uninitialised value reaches A[{i}] of the expression kernel", "replay": None})
        if dep:
            # replay on the gcc build: increments from two different initial A
            lib = ksym.build_so(c, "xp")
            rng = np.random.RandomState(3)
            env = {v.name: float(np.round(rng.uniform(0.3, 1.4), 3)) for v in ctx.vars if v.defn is None}
            w, cc, x = ksym.pack(inp, env)
            A1 = ksym.call_c_kernel(lib, kern, nA, w, cc, x, ents, perm, A0=np.zeros(nA))
            A2 = ksym.call_c_kernel(lib, kern, nA, w, cc, x, ents, perm, A0=np.full(nA, 7.25))
            d = np.abs((A2 - 7.25) - A1)
            if float(np.max(d)) > 1e-9 * max(1.0, float(np.max(np.abs(A1)))):
                i = int(np.argmax(d))
                res["violations"].append({"key": f"{name}:A[{i}]:depends-on-A0",
                                          "what": f"expression kernel: A[{i}] final - initial depends on the previous contents of A (increment {A1[i]!r} from A0=0, {(A2 - 7.25)[i]!r} from A0=7.25; entities {ents})",
                                          "replay": {"kind": "expr_purity", "name": name, "scalar": scalar, "ents": list(ents), "perm": list(perm)}})
            else:
                res["inconclusive"].append(f"{name}: Q-dep sat on entries {dep[:4]} but not reproduced on the build")
        if nA:
            res["twins_run"] += 1
            p0 = parts(kr.A[0])[0]
            a00 = ctx.inp("A0_0r", "A0") if cm else ctx.inp("A0_0", "A0")
            from .poly import Poly
            v, _ = eqcheck.qdep(ctx, p0 - a00 + a00 * Poly({(): 1}, ctx) * 0.001, ("A0_",), None)
            if v == "sat":
                res["twins_ok"] += 1
            else:
                res["harness"].append(f"{name}: expression purity twin not detected")
    res["samples"].append({"expression kernel": kern.name, "A_entries": nA, "queries": "Q-dep per A entry: T=A_final-A0 vs A0 symbols"})
    res["queries"] = stats.q
    res["solver_s"] = stats.secs


def expr_purity(name, spec):
    t0 = time.time()
    res = _new_res(name)
    try:
        _expr_purity(name, spec, res)
    except BudgetExceeded as e:
        res["outside"].append(f"{name}: polynomial size {e} over budget")
    except gen.Rejected as e:
        res["outside"].append(f"{name}: rejected by FFCx with {e}")
    except uflref.OracleUnsupported as e:
        res["outside"].append(f"{name}: {e}")
    except RecursionError:
        res["outside"].append(f"{name}: expression too deep for the recursive evaluators (RecursionError) - not analysed")
    except KsymError as e:
        res["harness"].append(f"{name}: ksym: {e}")
    except Exception as e:
        res["harness"].append(f"{name}: {type(e).__name__}: {e}\n{traceback.format_exc()[-1500:]}")
    res["wall"] = time.time() - t0
    return res


def replay_expr_purity(p):
    name, scalar = p["name"], p.get("scalar", "float64")
    cm = scalar.startswith("complex")
    expr, pts, c, m, ename, ed, kern = setup_expression(name, scalar)
    dom, nw, nc, nx, nA = _layout(expr, pts, cm)
    ctx = Ctx()
    inp = uflref.Inputs(ctx, nw, nc, nx, cm)
    rng = np.random.RandomState(3)
    env = {v.name: float(np.round(rng.uniform(0.3, 1.4), 3)) for v in ctx.vars if v.defn is None}
    w, cc, x = ksym.pack(inp, env)
    lib = ksym.build_so(c, "xp")
    A1 = ksym.call_c_kernel(lib, kern, nA, w, cc, x, p["ents"], p["perm"], A0=np.zeros(nA))
    A2 = ksym.call_c_kernel(lib, kern, nA, w, cc, x, p["ents"], p["perm"], A0=np.full(nA, 7.25))
    print("increment from A0=0   :", A1[: min(6, nA)])
    print("increment from A0=7.25:", (A2 - 7.25)[: min(6, nA)])
    bad = float(np.max(np.abs((A2 - 7.25) - A1))) > 1e-9 * max(1.0, float(np.max(np.abs(A1))))
    print("REPRODUCED" if bad else "not reproduced")
    return 1 if bad else 0


# ---- tensor-valued expressions containing identically-zero tables (second derivatives of P1, ...) --

@ereg("tensor_with_zero_table_2x2", "q")
def _():
    m = mesh("triangle")
    f = ufl.Coefficient(space(m))
    g = ufl.Coefficient(space(m, deg=2))
    x = ufl.SpatialCoordinate(m)
    return ufl.as_matrix([[f.dx(0).dx(1) + g, f.dx(0) * x[1]], [g.dx(1), f * g]]), TRI


@ereg("tensor_with_zero_table_2x3", "q")
def _():
    m = mesh("triangle")
    f = ufl.Coefficient(space(m))
    g = ufl.Coefficient(space(m, deg=2))
    return ufl.as_matrix([[f.dx(1).dx(1), f, g], [g.dx(0), f.dx(0), 2.0 * f * g]]), TRI[:2]


@ereg("hessian_P1_plus_outer_tetrahedron", "q")
def _():
    m = mesh("tetrahedron")
    f = ufl.Coefficient(space(m))
    g = ufl.Coefficient(space(m, shape=(3,)))
    return ufl.grad(ufl.grad(f)) + ufl.outer(g, ufl.grad(f)), TET


@ereg("rank3_with_zero_table", "")
def _():
    m = mesh("triangle")
    f = ufl.Coefficient(space(m))
    g = ufl.Coefficient(space(m, shape=(2,)))
    return ufl.outer(ufl.grad(ufl.grad(f)) + ufl.outer(g, g), ufl.as_vector([f, 2.0])), TRI[:2]


@ereg("hessian_P2_coefficient", "q")
def _():
    m = mesh("triangle")
    f = ufl.Coefficient(space(m, deg=2))
    k = ufl.Constant(m)
    return k * ufl.grad(ufl.grad(f)), TRI


@ereg("hessian_Q2_coefficient_quadrilateral", "q")
def _():
    m = mesh("quadrilateral")
    f = ufl.Coefficient(space(m, "Q", 2))
    return ufl.grad(ufl.grad(f)), QUAD


@ereg("hessian_P2_argument_rank1", "")
def _():
    m = mesh("triangle")
    u = ufl.TrialFunction(space(m, deg=2))
    return ufl.grad(ufl.grad(u)), TRI[:2]


# ---------------------------------------------------------------------------
# C08 on expression kernels: every access site in bounds for every facet index / permutation code


def expr_bounds(name, spec):
    from .kernelprops import NPERM, asan_run, site_queries

    t0 = time.time()
    res = _new_res(name)
    try:
        scalar = spec.get("scalar", "float64")
        cm = scalar.startswith("complex")
        expr, pts, c, m, ename, ed, kern = setup_expression(name, scalar)
        dom, nw, nc, nx, nA = _layout(expr, pts, cm)
        tdim = dom.topological_dimension
        cellname = dom.ufl_cell().cellname
        edim = pts.shape[1]
        facet = edim < tdim
        nfac = len(basix.topology(basix.CellType[cellname])[tdim - 1]) if facet else 1
        facet_kind = {1: "interval", 2: ("quadrilateral" if cellname == "hexahedron" else "triangle")}.get(edim, "point")
        nperm = NPERM.get(facet_kind, 1) if facet else 1
        ext = {"A": nA, "w": nw, "c": nc, "coordinate_dofs": nx, "entity_local_index": 1 if facet else 0, "quadrature_permutation": 1 if facet else 0}
        stats = eqcheck.QStats()
        out, n = site_queries(kern, ext, list(range(nfac)), nperm, stats)
        res["kernels"] += 1
        res["entries"] += n
        for desc, verdict, mdl in out:
            if verdict == "unsat":
                continue
            if verdict == "sat":
                e0, p0 = mdl.get("e0", 0), mdl.get("p0", 0)
                failed, log = asan_run(c, kern, ext, (e0, 0), (p0, 0))
                if failed:
                    res["violations"].append({"key": f"expr:{name}:{desc.split(' line')[0]}",
                                              "what": f"expression kernel {desc}: index {mdl['_index']} outside {mdl['_shape']} for local facet {e0}, permutation code {p0}; confirmed by ASan/UBSan", "replay": None})
                elif failed is None:
                    res["harness"].append(f"{name}: ASan replay build failed: {log[:200]}")
                else:
                    # out of range in one dimension of a table but inside the object as a whole: the sanitizer is silent
                    res["violations"].append({"key": f"expr:{name}:{desc.split(' line')[0]}",
                                              "what": f"expression kernel {desc}: subscript {mdl['_index']} outside the declared extents {mdl['_shape']} for local facet {e0}, permutation code {p0} (inside the object as a whole, so the sanitizer run is clean; C11 6.5.6 undefined behaviour, reported from the LIA model)", "replay": None}) if mdl["_index"] and any(i >= s_ or i < 0 for i, s_ in zip(mdl["_index"], mdl["_shape"])) and _flat_oob(mdl) else res["inconclusive"].append(f"{name}: {desc}: solver sat {mdl['_index']} vs {mdl['_shape']}, sanitizer run clean")
            else:
                res["harness"].append(f"{name}: {desc}: {verdict}")
        res["queries"] = stats.q
        res["solver_s"] = stats.secs
        res["samples"].append({"expression kernel": kern.name, "access_sites": n, "facets": nfac, "permutation codes": nperm})
    except gen.Rejected as e:
        res["outside"].append(f"{name}: rejected by FFCx with {e}")
    except (uflref.OracleUnsupported, RecursionError) as e:
        res["outside"].append(f"{name}: {type(e).__name__}: {e}")
    except KsymError as e:
        res["harness"].append(f"{name}: ksym: {e}")
    except Exception as e:
        res["harness"].append(f"{name}: {type(e).__name__}: {e}\n{traceback.format_exc()[-1200:]}")
    res["wall"] = time.time() - t0
    return res


def _flat_oob(mdl):
    """True if the flattened address of the model's subscript lies outside the whole object."""
    flat, size = 0, 1
    for i, n in zip(mdl["_index"], mdl["_shape"]):
        flat = flat * n + i
        size *= n
    return flat < 0 or flat >= size


@ereg("facet_rank1_gradP1_triangle", "q")
def _():
    m = mesh("triangle")
    v = ufl.TestFunction(space(m))
    n = ufl.FacetNormal(m)
    return ufl.dot(ufl.grad(v), n), np.array([[0.3], [0.8]])


@ereg("facet_rank1_gradP1_tetrahedron", "q")
def _():
    m = mesh("tetrahedron")
    v = ufl.TestFunction(space(m))
    return ufl.grad(v), FTRI
