"""C06: form descriptor dispatch.  (1) the real codegeneration.common.integral_data on a stub
FormIR with z3-integer subdomain ids, (2) end-to-end: kernels listed under (type, id) vs the
integrands the user declared for that id, from the ORIGINAL form (not UFL's regrouping)."""

from __future__ import annotations

import itertools
import time
import traceback
import types

import numpy as np
import ufl
import z3

from . import cfront, corpus, eqcheck, gen, ksym, uflref
from .formcheck import (FLOOR_STRICT, REL_STRICT, STRICT_OPTS, compare_values, entity_configs, geometry_env,
                        kernel_layout, sid_list, to_flat, unify, split_parts)
from .kir import BudgetExceeded
from .poly import CPoly, Ctx, KsymError

TYPES = ("cell", "exterior_facet", "interior_facet", "vertex", "ridge")


# ---------------------------------------------------------------------------
# function level


def integral_data_symbolic(shape: dict, stats: eqcheck.QStats, twin: bool = False):
    """shape: {type: [ndomains per integral]}.  Runs the real integral_data for every
    permutation np.argsort may return, with z3 Int ids.  Returns list of problems."""
    import ffcx.codegeneration.common as common

    problems = []
    ids_in = {t: [z3.Int(f"id_{t}_{k}") for k in range(len(shape.get(t, [])))] for t in TYPES}
    names_in = {t: [f"{t}#{k}" for k in range(len(shape.get(t, [])))] for t in TYPES}
    doms_in = {t: [[f"{t}#{k}.d{j}" for j in range(n)] for k, n in enumerate(shape.get(t, []))] for t in TYPES}
    ir = types.SimpleNamespace(subdomain_ids=ids_in, integral_names=names_in, integral_domains=doms_in)
    perm_space = [list(itertools.permutations(range(len(shape.get(t, []))))) for t in TYPES]
    real_np = common.np
    nruns = 0
    for combo in itertools.product(*perm_space):
        cons = []
        calls = {"n": 0}

        def argsort(seq, combo=combo, cons=cons, calls=calls):
            t = TYPES[calls["n"]]
            calls["n"] += 1
            pi = list(combo[TYPES.index(t)])
            seq = list(seq)
            assert len(seq) == len(pi)
            for a, b in zip(pi, pi[1:]):
                if not twin:  # vacuity twin: drop the contract -> unsortedness must be found
                    cons.append(seq[a] <= seq[b])  # contract of argsort (ties in any order)
            return pi

        class _NP:  # numpy with argsort replaced by its contract
            def __getattr__(self, k):
                return getattr(real_np, k)

        stub = _NP()
        stub.argsort = argsort
        common.np = stub
        try:
            out = common.integral_data(ir)
        except Exception as e:
            problems.append(("not-executable", shape, list(combo), f"integral_data could not be executed on symbolic ids: {type(e).__name__}: {str(e)[:120]}"))
            continue
        finally:
            common.np = real_np
        nruns += 1
        if calls["n"] != len(TYPES):
            problems.append(("not-executable", shape, list(combo), f"argsort called {calls['n']} times: the symbolic model of the sort does not apply"))
            continue
        # expand to kernel entries as C/form.py and numba/form.py do
        ent_ids, ent_names = [], []
        for nm, i, ds in zip(out.names, out.ids, out.domains):
            for d in ds:
                ent_ids.append(i)
                ent_names.append(d)
        total = sum(sum(shape.get(t, [])) for t in TYPES)
        offs = list(out.offsets)
        # concrete structure: offsets delimit exactly the kernels of each type
        exp = [0]
        for t in TYPES:
            exp.append(exp[-1] + sum(shape.get(t, [])))
        if offs != exp:
            problems.append(("offsets", shape, list(combo), f"offsets {offs} but kernel counts per type give {exp}"))
        if len(ent_ids) != total:
            problems.append(("count", shape, list(combo), f"{len(ent_ids)} kernel entries for {total} kernels"))
        # solver: for all id values consistent with the argsort contract
        s = z3.Solver()
        s.add(*cons)
        pos = 0
        for t in TYPES:
            n = sum(shape.get(t, []))
            grp = ent_ids[pos : pos + n]
            grp_names = ent_names[pos : pos + n]
            pos += n
            t0 = time.time()
            # (i) ids non-decreasing inside the group
            if len(grp) > 1:
                s.push()
                s.add(z3.Or(*[a > b for a, b in zip(grp, grp[1:])]))
                r = str(s.check())
                stats.add("Q-lia", r, time.time() - t0)
                if r != "unsat":
                    problems.append(("unsorted", shape, list(combo), f"type {t}: ids can decrease ({r})"))
                s.pop()
            # (ii) each listed kernel belongs to this type and carries the id of its own integral
            for nm, idt in zip(grp_names, grp):
                tt, rest = nm.split("#")
                k = int(rest.split(".")[0])
                if tt != t:
                    problems.append(("wrong-type", shape, list(combo), f"kernel {nm} listed under {t}"))
                    continue
                t0 = time.time()
                s.push()
                s.add(idt != ids_in[t][k])
                r = str(s.check())
                stats.add("Q-lia", r, time.time() - t0)
                if r != "unsat":
                    problems.append(("wrong-id", shape, list(combo), f"kernel {nm} listed with another integral's id ({r})"))
                s.pop()
            # (iii) every kernel of the type is listed exactly once
            want = sorted(d for ds in doms_in[t] for d in ds)
            if sorted(grp_names) != want:
                problems.append(("lost", shape, list(combo), f"type {t}: listed {sorted(grp_names)} expected {want}"))
    return problems, nruns


def integral_data_concrete(shape: dict, id_values=(-1, 0, 1, 2)):
    """Exhaustive enumeration (bounded, no solver): the unmodified function on every assignment of
    ids from id_values, duplicates included.  Returns problems."""
    import ffcx.codegeneration.common as common

    problems = []
    slots = [(t, k) for t in TYPES for k in range(len(shape.get(t, [])))]
    n = 0
    for vals in itertools.product(id_values, repeat=len(slots)):
        ids_in = {t: [] for t in TYPES}
        for (t, k), v in zip(slots, vals):
            ids_in[t].append(v)
        names_in = {t: [f"{t}#{k}" for k in range(len(shape.get(t, [])))] for t in TYPES}
        doms_in = {t: [[f"{t}#{k}.d{j}" for j in range(nd)] for k, nd in enumerate(shape.get(t, []))] for t in TYPES}
        ir = types.SimpleNamespace(subdomain_ids=ids_in, integral_names=names_in, integral_domains=doms_in)
        out = common.integral_data(ir)
        n += 1
        ent = [(i, d) for nm, i, ds in zip(out.names, out.ids, out.domains) for d in ds]
        exp = [0]
        for t in TYPES:
            exp.append(exp[-1] + sum(shape.get(t, [])))
        ok = list(out.offsets) == exp and len(ent) == exp[-1]
        pos = 0
        for t in TYPES:
            cnt = sum(shape.get(t, []))
            grp = ent[pos : pos + cnt]
            pos += cnt
            want = sorted((ids_in[t][k], d) for k, ds in enumerate(doms_in[t]) for d in ds)
            if sorted((int(i), d) for i, d in grp) != want or any(int(a[0]) > int(b[0]) for a, b in zip(grp, grp[1:])):
                ok = False
        if not ok:
            problems.append(("concrete", shape, list(vals), f"ids {ids_in}: listed {ent}, offsets {list(out.offsets)}"))
            break
    return problems, n


def shapes(tier):
    """Stub-FormIR shapes: up to 3 integrals in each of up to 2 types, 1-2 domains each."""
    out = []
    dom_choices = [1, 2]
    maxn = 2 if tier == "quick" else 3
    for t1, t2 in itertools.combinations(TYPES, 2):
        for n1 in range(0, maxn + 1):
            for n2 in range(0, maxn + 1):
                if n1 + n2 == 0:
                    continue
                for d1 in itertools.product(dom_choices, repeat=n1):
                    for d2 in itertools.product(dom_choices, repeat=n2):
                        if tier == "quick" and sum(d1) + sum(d2) > n1 + n2 + 1:
                            continue
                        out.append({t1: list(d1), t2: list(d2)})
    # dedupe
    seen = set()
    res = []
    for s in out:
        k = tuple((t, tuple(s.get(t, []))) for t in TYPES)
        if k not in seen:
            seen.add(k)
            res.append(s)
    return res


def replay_offsets():
    """Real pipeline: prism form with ds (two facet types) + dP: kernels vs offsets."""
    import basix.ufl

    m = ufl.Mesh(basix.ufl.element("Lagrange", "prism", 1, shape=(3,)))
    V = ufl.FunctionSpace(m, basix.ufl.element("Lagrange", "prism", 1))
    u, v = ufl.TrialFunction(V), ufl.TestFunction(V)
    a = u * v * ufl.ds + u * v * ufl.dP
    h, c = gen.compile_c([a])
    mod = cfront.parse_c(c)
    fd = gen.form_descs(mod)[0]
    nk = len(fd.integral_names)
    print("kernels listed:", nk, "form_integral_offsets:", fd.offsets)
    bad = fd.offsets[-1] != nk or any(a > b for a, b in zip(fd.offsets, fd.offsets[1:]))
    t = {it: fd.offsets[i + 1] - fd.offsets[i] for i, it in enumerate(TYPES)}
    print("kernels per type by offsets:", t)
    if t.get("vertex", 0) != 1 or t.get("exterior_facet", 0) != 2:
        bad = True
    print("REPRODUCED" if bad else "not reproduced")
    return 1 if bad else 0


# ---------------------------------------------------------------------------
# end to end


def _ids_of(integral):
    s = integral.subdomain_id()
    if not isinstance(s, tuple):
        s = (s,)
    return [-1 if x in ("otherwise", "everywhere") else int(x) for x in s]


def _new_res(name):
    return {"name": name, "entries": 0, "kernels": 0, "configs": 0, "queries": {}, "solver_s": 0.0, "inconclusive": [],
            "violations": [], "harness": [], "outside": [], "selfval": 0, "twins_run": 0, "twins_ok": 0, "samples": [],
            "extra": {"descriptor_fields_compared": 0}}


def dispatch_case(name, spec):
    t0 = time.time()
    res = _new_res(name)
    try:
        _dispatch(name, spec, res)
    except BudgetExceeded as e:
        res["outside"].append(f"{name}: polynomial size {e} over budget")
    except gen.Rejected as e:
        res["outside"].append(f"{name}: rejected by FFCx with {e}")
    except uflref.OracleUnsupported as e:
        res["outside"].append(f"{name}: oracle does not cover: {e}")
    except KsymError as e:
        res["harness"].append(f"{name}: ksym: {e}")
    except Exception as e:
        res["harness"].append(f"{name}: {type(e).__name__}: {e}\n{traceback.format_exc()[-1500:]}")
    res["wall"] = time.time() - t0
    return res


def _dispatch(name, spec, res):
    tier = spec.get("tier", "quick")
    entry = corpus.REG[name]
    scalar = entry.get("scalar", "float64")
    options = dict(STRICT_OPTS, scalar_type=scalar)
    form = corpus.build(name)
    h, c = gen.compile_c([form], options)
    m = cfront.parse_c(c)
    fd = gen.form_descs(m)[0]
    ids = gen.integral_descs(m)
    fref = uflref.FormRef(form, scalar)
    stats = eqcheck.QStats()

    def viol(key, what):
        res["violations"].append({"key": f"{name}:{key}", "what": what, "replay": {"kind": "descriptor", "name": name, "key": key}})

    # ---- descriptor structure (concrete facts read from the emitted C) ----
    offs = fd.offsets
    dcount = 0
    if len(offs) != 6 or offs[0] != 0 or any(a > b for a, b in zip(offs, offs[1:])):
        viol("offsets-shape", f"form_integral_offsets {offs} is not 6 non-decreasing entries from 0")
    if offs[-1] != len(fd.integral_names) or len(fd.ids) != len(fd.integral_names):
        viol("offsets-total", f"offsets end at {offs[-1]} but {len(fd.integral_names)} kernels / {len(fd.ids)} ids are listed")
    for t, it in enumerate(TYPES):
        grp = fd.ids[offs[t] : offs[t + 1]] if len(offs) == 6 else []
        if any(a > b for a, b in zip(grp, grp[1:])):
            viol(f"ids-unsorted:{it}", f"ids of {it} group not non-decreasing: {grp}")
        dcount += 1
    # declared (type, id) pairs from the original form
    declared = {}
    for I in form.integrals():
        for k in _ids_of(I):
            declared.setdefault((I.integral_type(), k), []).append(I)
    listed = {}
    for it, sid, kn in fd.entries():
        listed.setdefault((it, sid), []).append(kn)
    for key in declared:
        if key not in listed:
            viol(f"missing:{key[0]}:{key[1]}", f"user declared integrals for {key} but no kernel is listed under it")
    for key in listed:
        if key not in declared:
            viol(f"spurious:{key[0]}:{key[1]}", f"kernel listed under {key} but the user declared nothing for it")
    # scalar metadata
    of = fref.fd.original_form
    checks = [
        ("rank", fd.rank, len(of.arguments())),
        ("num_coefficients", fd.num_coefficients, len(fref.coefficients)),
        ("num_constants", fd.num_constants, len(fref.constants)),
        ("original_coefficient_positions", list(fd.ocp), list(fref.original_coefficient_positions)),
        ("constant_ranks", list(fd.constant_ranks), [len(cst.ufl_shape) for cst in fref.constants]),
        ("constant_shapes", [list(s) if s else [] for s in fd.constant_shapes], [list(cst.ufl_shape) for cst in fref.constants]),
        ("finite_element_hashes", [int(x) for x in fd.fe_hashes], [int(e.basix_hash() or 0) for e in fref.arg_elements + fref.coeff_elements]),
        ("signature", fd.signature, of.signature()),
        ("coefficient_names", list(fd.coefficient_names), [f"w{j}" for j in range(len(fref.coefficients))]),
        ("constant_names", list(fd.constant_names), [f"c{j}" for j in range(len(fref.constants))]),
    ]
    for fld, got, want in checks:
        dcount += 1
        if got != want:
            viol(f"field:{fld}", f"ufcx_form.{fld} = {got!r}, the form has {want!r}")
    for kn, d in ids.items():
        dcount += 2
        itds = [x for x in fref.fd.integral_data]
        # coordinate element hash and cell-type tag
        # the kernel is listed under some (type, id); its hash must be that of the mesh the user
        # declared those integrals over
        want_h = set()
        for (it_, sid_), kns_ in listed.items():
            if kn in kns_:
                for I in declared.get((it_, sid_), []):
                    want_h.add(int(I.ufl_domain().ufl_coordinate_element().basix_hash()))
        if want_h and int(d.ce_hash) not in want_h:
            viol(f"ce-hash:{kn}", f"coordinate_element_hash {int(d.ce_hash)} of {kn} is not the hash of the coordinate element of the mesh its integrals are declared over ({sorted(want_h)})")
    res["extra"]["descriptor_fields_compared"] = dcount

    # ---- per (type, id): sum of listed kernels vs the user's integrands for that id ----
    lib = ksym.build_so(c, "d")
    for (itype, sid), kns in sorted(listed.items()):
        if (itype, sid) not in declared:
            continue
        ints = [I.reconstruct(subdomain_id="everywhere") for I in declared[(itype, sid)]]
        sub = ufl.Form(ints)
        sref = uflref.FormRef(sub, scalar)
        sitds = [d for d in sref.fd.integral_data if d.integral_type == itype]
        if len(sitds) != 1:
            res["harness"].append(f"{name}: sub-form for {(itype, sid)} lowered to {len(sitds)} groups")
            continue
        sitd = sitds[0]
        # layout/packing of the WHOLE form
        dom0 = declared[(itype, sid)][0].ufl_domain()
        witd = next((d for d in fref.fd.integral_data if d.integral_type == itype and d.domain == dom0 and sid in sid_list(d)), None) or \
            next(d for d in fref.fd.integral_data if d.integral_type == itype and d.domain == dom0)
        nw, nc, nx, shape, nA, width, cel = kernel_layout(fref, witd)
        cellname = witd.domain.ufl_cell().cellname
        facet_cells = sorted({ids[k].domain for k in kns}) if itype in ("exterior_facet", "interior_facet") else [None]
        for fc in facet_cells:
            kk = [k for k in kns if fc is None or ids[k].domain == fc]
            cfgs = entity_configs(itype, cellname, tier, fc)
            if tier == "quick":
                cfgs = cfgs[:2]
            for ents in cfgs:
                ctx = Ctx()
                inp = uflref.Inputs(ctx, nw, nc, nx, fref.complex_mode)
                # kernels applied one after another: each starts from the previous A
                zero = CPoly(ctx.const(0), ctx.const(0)) if fref.complex_mode else ctx.const(0)
                tot = [zero] * nA
                for k in kk:
                    kern = m.kernels[ids[k].tt[scalar]]
                    kr = ksym.run_kernel(kern, ctx, inp, nA, entities=ents, perms=(0, 0))
                    tot = [a + b for a, b in zip(tot, kr.A)]
                    res["kernels"] += 1
                # oracle: the user's integrals for this id, packed by the whole form's contract
                R = {}
                for integral in sitd.integrals:
                    ent_cell = uflref.facet_cellname(cellname, ents[0]) if fc is not None else None
                    ev = uflref.Evaluator(ctx, inp, itype=itype, cellname=cellname, coord_element=cel,
                                          arg_elements=fref.arg_elements, coefficients=fref.coefficients,
                                          coeff_elements=fref.coeff_elements, constants=fref.constants, entities=ents,
                                          complex_mode=fref.complex_mode)
                    pts, wts = uflref.quadrature_for(integral, itype, cellname, fref.arg_elements, ent_cell)
                    ev.set_points(pts, wts)
                    acc = uflref.AV(R)
                    for qi in range(len(wts)):
                        acc = uflref.av_add(acc, ev.evaluate(integral.integrand(), qi))
                    R = acc.d
                Rf = to_flat(R, shape, nA, zero)
                res["configs"] += 1
                label = f"{name}:({itype},{sid}):ents={ents}"
                base_env = geometry_env(cel, cellname, width, 0)
                cands = compare_values(ctx, tot, Rf, REL_STRICT, stats, res, label, base_env=base_env)
                for lab, env, D, rpoly, rel_, floor_ in cands[:2]:
                    w, cc, x = ksym.pack(inp, env)
                    A = np.zeros(nA, dtype=complex if fref.complex_mode else float)
                    for k in kk:
                        kern = m.kernels[ids[k].tt[scalar]]
                        A = ksym.call_c_kernel(lib, kern, nA, w, cc, x, ents, (0, 0), A0=A)
                    idx = int(lab.split(".")[0])
                    kval = A[idx].imag if lab.endswith(".im") else (A[idx].real if lab.endswith(".re") else A[idx])
                    rval = rpoly.eval(env)
                    tol = eqcheck.allowance(ctx, D, rpoly, rel_, floor_, env)
                    if abs(kval - rval) > tol:
                        res["violations"].append({"key": f"{name}:({itype},{sid}):ents={ents}:A[{lab}]",
                                                  "what": f"kernels listed under ({itype},{sid}) add {kval!r}, the integrands declared for that id give {rval!r} (tol {tol:.3g})",
                                                  "replay": {"kind": "dispatch", "name": name, "itype": itype, "sid": sid, "ents": list(ents), "entry": lab, "env": env, "tol": tol}})
                    else:
                        res["inconclusive"].append(f"{label} entry {lab}: sat, not reproduced")
                if len(res["samples"]) < 2:
                    res["samples"].append({"case": label, "kernels_listed": kk, "declared_integrals": len(ints)})
    res["queries"] = stats.q
    res["solver_s"] = stats.secs
