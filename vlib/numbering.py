"""C03: interior-facet results do not depend on the cells' local vertex numbering.

(1) function level: the real permute_quadrature_* of ffcx.ir.elementtables are run on a
    symbolic reference point (numpy object arrays holding polynomials); z3 decides that the
    tabulated family (index 2*rot+ref) is the whole symmetry group of the facet.
(2) kernel level: for a dS kernel and a renumbering (sigma+, sigma-) of the two cells, the
    codes that make the facet points coincide physically are found (polynomial identity in
    symbolic vertices and a symbolic reference point, using the real permute functions), and
    the renumbered kernel value is proved equal to the permuted baseline value."""

from __future__ import annotations

import itertools
import time
import traceback
from fractions import Fraction

import basix
import numpy as np

from . import cfront, corpus, eqcheck, gen, ksym, uflref
from .formcheck import FLOOR_STRICT, REL_STRICT, STRICT_OPTS, assumptions_hold, coeff_scale, geometry_env, kernel_layout, sid_list, split_parts, unify
from .kir import BudgetExceeded
from .poly import CPoly, Ctx, KsymError, Poly

FACET_OF = {"triangle": "interval", "tetrahedron": "triangle", "quadrilateral": "interval", "hexahedron": "quadrilateral"}
NCODES = {"interval": 2, "triangle": 6, "quadrilateral": 8}


def real_permute(facet, pts, code):
    """Call /repo's permute_quadrature_* with (reflections, rotations) = (code % 2, code // 2)."""
    import ffcx.ir.elementtables as et

    ref, rot = code % 2, code // 2
    if facet == "interval":
        if rot:
            raise ValueError("no rotations on an interval")
        return et.permute_quadrature_interval(pts, ref)
    if facet == "triangle":
        return et.permute_quadrature_triangle(pts, ref, rot)
    if facet == "quadrilateral":
        return et.permute_quadrature_quadrilateral(pts, ref, rot)
    raise ValueError(facet)


def sym_point(ctx, facet):
    d = {"interval": 1, "triangle": 2, "quadrilateral": 2}[facet]
    p = np.empty((1, d), dtype=object)
    for i in range(d):
        p[0, i] = ctx.inp(f"p{i}", "pt", 0.0, 1.0)
    return p


def facet_shape_functions(facet, p):
    """P1/Q1 shape functions of the reference facet at point p (sequence of values)."""
    one = 1
    if facet == "interval":
        return [one - p[0], p[0]]
    if facet == "triangle":
        return [one - p[0] - p[1], p[0], p[1]]
    if facet == "quadrilateral":
        return [(one - p[0]) * (one - p[1]), p[0] * (one - p[1]), (one - p[0]) * p[1], p[0] * p[1]]
    raise ValueError(facet)


def group_check(facet, stats):
    """z3-decided facts about the family of maps the tables are built from."""
    ctx = Ctx()
    pts = sym_point(ctx, facet)
    n = NCODES[facet]
    maps = []
    for code in range(n):
        out = real_permute(facet, pts, code)
        maps.append([out[0][i] if isinstance(out[0][i], Poly) else ctx.const(out[0][i]) for i in range(pts.shape[1])])
    problems = []

    def same(a, b):
        return all(eqcheck.qident(ctx, x - y, stats)[0] == "unsat" for x, y in zip(a, b))

    # identity at index 0
    if not same(maps[0], [pts[0][i] for i in range(pts.shape[1])]):
        problems.append(f"{facet}: code 0 is not the identity map")
    # pairwise distinct
    for i, j in itertools.combinations(range(n), 2):
        if same(maps[i], maps[j]):
            problems.append(f"{facet}: codes {i} and {j} give the same map (group not covered)")
    # closed under composition: apply map j to the image of map i
    for i in range(n):
        img = np.empty((1, pts.shape[1]), dtype=object)
        for k in range(pts.shape[1]):
            img[0, k] = maps[i][k]
        for j in range(n):
            out = real_permute(facet, img, j)
            comp = [out[0][k] for k in range(pts.shape[1])]
            if not any(same(comp, maps[k]) for k in range(n)):
                problems.append(f"{facet}: composition of codes {i} then {j} is not in the family")
    # decoding documented in ufcx.h: code N = (N div 2) rotations, then (N mod 2) reflections, where one
    # rotation is the map of code 2 and one reflection the map of code 1
    def apply(code, point):
        arr = np.empty((1, pts.shape[1]), dtype=object)
        for k in range(pts.shape[1]):
            arr[0, k] = point[k]
        out = real_permute(facet, arr, code)
        return [out[0][k] for k in range(pts.shape[1])]

    for code in range(n):
        cur = [pts[0][k] for k in range(pts.shape[1])]
        if facet != "interval":
            for _ in range(code // 2):
                cur = apply(2, cur)
        for _ in range(code % 2):
            cur = apply(1, cur)
        if not same(cur, maps[code]):
            problems.append(f"{facet}: code {code} is not {code // 2} rotation(s) followed by {code % 2} reflection(s) of the code-2 / code-1 maps")
    # each map permutes the reference facet's vertices (maps the facet onto itself)
    geom = np.asarray(basix.geometry(basix.CellType[facet]), dtype=float)
    for code in range(n):
        imgs = []
        for v in geom:
            vp = np.empty((1, len(v)), dtype=object)
            for k in range(len(v)):
                vp[0, k] = ctx.const(Fraction(v[k]).limit_denominator(4))
            out = real_permute(facet, vp, code)
            imgs.append(tuple(float(out[0][k].const_value()) if isinstance(out[0][k], Poly) else float(out[0][k]) for k in range(len(v))))
        if sorted(imgs) != sorted(tuple(map(float, v)) for v in geom):
            problems.append(f"{facet}: code {code} does not map the reference facet's vertices onto themselves")
    return problems, n


def cell_symmetries(cellname, tier):
    """Vertex renumberings under which the reference cell's topology is preserved."""
    ct = basix.CellType[cellname]
    geom = np.asarray(basix.geometry(ct), dtype=float)
    nv = len(geom)
    if cellname in ("triangle", "tetrahedron", "interval"):
        return list(itertools.permutations(range(nv)))
    # boxes: permutations that are induced by an affine isometry of the reference cube
    edges = {tuple(sorted(e)) for e in basix.topology(ct)[1]}
    out = []
    for s in itertools.permutations(range(nv)):
        if all(tuple(sorted((s[a], s[b]))) in edges for a, b in edges):
            out.append(s)
    return out


def facet_vertices(cellname, e):
    ct = basix.CellType[cellname]
    tdim = len(basix.topology(ct)) - 1
    return list(basix.topology(ct)[tdim - 1][e])


def find_facet(cellname, vset):
    ct = basix.CellType[cellname]
    tdim = len(basix.topology(ct)) - 1
    for e, vs in enumerate(basix.topology(ct)[tdim - 1]):
        if set(vs) == set(vset):
            return e
    raise KeyError(vset)


def _new_res(name):
    return {"name": name, "entries": 0, "kernels": 0, "configs": 0, "queries": {}, "solver_s": 0.0, "inconclusive": [],
            "violations": [], "harness": [], "outside": [], "selfval": 0, "twins_run": 0, "twins_ok": 0, "samples": [], "extra": {}}


def numbering_case(name, spec):
    t0 = time.time()
    res = _new_res(name)
    try:
        _numbering(name, spec, res)
    except BudgetExceeded as e:
        res["outside"].append(f"{name}: polynomial size {e} over budget")
    except gen.Rejected as e:
        res["outside"].append(f"{name}: rejected by FFCx with {e}")
    except KsymError as e:
        res["harness"].append(f"{name}: ksym: {e}")
    except Exception as e:
        res["harness"].append(f"{name}: {type(e).__name__}: {e}\n{traceback.format_exc()[-1500:]}")
    res["wall"] = time.time() - t0
    return res


def dof_vertex_layout(el):
    """For vertex-based elements: (block size, dofs per block = number of vertices) or None."""
    cname = type(el).__name__
    if cname == "_BlockedElement":
        sub = dof_vertex_layout(el._sub_element)
        if sub is None:
            return None
        return (el.block_size * sub[0], sub[1])
    if cname == "_BasixElement":
        be = el.basix_element
        nv = len(basix.geometry(be.cell_type))
        if be.degree == 0 and be.dim == 1:
            return (1, 0)  # single cell dof: unaffected by renumbering
        if be.degree == 1 and be.dim == nv and be.family in (basix.ElementFamily.P,):
            return (1, nv)
    return None


def perm_dofs(el, sigma):
    """new local dof -> old local dof for a vertex renumbering sigma (new vertex i = old sigma[i])."""
    lay = dof_vertex_layout(el)
    if lay is None:
        return None
    bs, nv = lay
    if nv == 0:
        return list(range(el.dim))
    return [sigma[i // bs] * bs + (i % bs) for i in range(nv * bs)]


def _numbering(name, spec, res):
    tier = spec.get("tier", "quick")
    entry = corpus.REG[name]
    scalar = entry.get("scalar", "float64")
    options = dict(STRICT_OPTS, scalar_type=scalar)
    form = corpus.build(name)
    h, c = gen.compile_c([form], options)
    m = cfront.parse_c(c)
    fd = gen.form_descs(m)[0]
    ids = gen.integral_descs(m)
    fref = uflref.FormRef(form, scalar)
    stats = eqcheck.QStats()
    lib = None
    t_start = time.time()
    budget = spec.get("budget_s", 40 if tier == "quick" else 240)
    for itd in fref.fd.integral_data:
        if itd.integral_type != "interior_facet":
            continue
        cellname = itd.domain.ufl_cell().cellname
        if cellname not in FACET_OF:
            res["outside"].append(f"{name}: cell {cellname} not covered")
            continue
        facet = FACET_OF[cellname]
        nw, nc, nx, shape, nA, width, cel = kernel_layout(fref, itd)
        gl = dof_vertex_layout(cel)
        if gl is None or gl[1] == 0:
            res["outside"].append(f"{name}: coordinate element is not vertex based")
            continue
        els = fref.arg_elements + fref.coeff_elements
        if any(dof_vertex_layout(e) is None for e in els):
            res["outside"].append(f"{name}: element with edge/face/interior dofs (dof permutation is the assembler's job)")
            continue
        kn = fd.kernels_for("interior_facet", sid_list(itd)[0])[0]
        idesc = ids[kn]
        kern = m.kernels[idesc.tt[scalar]]
        res["kernels"] += 1
        # needs_facet_permutations == false  =>  the permutation argument is never read
        from .kernelprops import _free_ids

        uses_perm = "quadrature_permutation" in _free_ids(kern.body)
        if not idesc.needs_perm and uses_perm:
            res["violations"].append({"key": f"{name}:{kn}:flag-false-but-read", "what": "needs_facet_permutations is false but the kernel reads quadrature_permutation", "replay": None})
        nv = len(basix.geometry(basix.CellType[cellname]))
        gd = cel.reference_value_shape[0]
        syms = cell_symmetries(cellname, tier)
        nfac = len(basix.topology(basix.CellType[cellname])[-2])
        # baseline facet pairs
        base_pairs = [(0, 0), (1, 2 % nfac)] if tier == "quick" else [(a, b) for a in range(nfac) for b in range(nfac)][: (9 if cellname in ("triangle", "quadrilateral") else 6)]
        if tier == "quick":
            sel = [(syms[0], s) for s in syms[: (6 if nv <= 3 else 5)]] + [(syms[1], syms[-1]), (syms[-1], syms[2 % len(syms)])]
        else:
            lim = 36 if nv <= 3 else 48
            allp = list(itertools.product(syms, syms))
            step = max(1, len(allp) // lim)
            sel = allp[::step][:lim] + [(syms[0], s) for s in syms]
        for (e0, e1) in base_pairs:
            fv0, fv1 = facet_vertices(cellname, e0), facet_vertices(cellname, e1)
            if len(fv0) != len(fv1):
                continue
            ctx = Ctx()
            inp = uflref.Inputs(ctx, nw, nc, nx, fref.complex_mode)
            # geometry: the k-th vertex of facet e1 of '-' coincides physically with the k-th vertex of facet e0 of '+'
            nn = nv
            X = list(inp.X)
            for k, (va, vb) in enumerate(zip(fv0, fv1)):
                for i in range(3):
                    X[3 * nn + 3 * vb + i] = X[3 * va + i]
            for s in range(2):
                for v in range(nn):
                    for i in range(gd, 3):
                        X[s * 3 * nn + 3 * v + i] = ctx.const(0)
            inp.X = X
            base = ksym.run_kernel(kern, ctx, inp, nA, entities=(e0, e1), perms=(0, 0))
            for si_, (s0, s1) in enumerate(sel):
                if time.time() - t_start > budget:
                    res["outside"].append(f"{name}: facets ({e0},{e1}): stopped after {si_} of {len(sel)} renumberings (time budget {budget}s)")
                    break
                sig = (s0, s1)
                # renumbered inputs: new vertex i of cell s is old vertex sig[s][i]
                inp2 = uflref.Inputs(ctx, nw, nc, nx, fref.complex_mode)
                X2 = [None] * nx
                for s in range(2):
                    for i in range(nn):
                        for k in range(3):
                            X2[s * 3 * nn + 3 * i + k] = X[s * 3 * nn + 3 * sig[s][i] + k]
                inp2.X = X2
                W2 = list(inp.W)
                off = 0
                for el in fref.coeff_elements:
                    d = el.dim
                    for s in range(2):
                        pd = perm_dofs(el, sig[s])
                        for i in range(d):
                            W2[off + s * d + i] = inp.W[off + s * d + pd[i]]
                    off += 2 * d
                inp2.W = W2
                inp2.C = inp.C
                inv = [list(sig[s]).index for s in range(2)]
                e0n = find_facet(cellname, [inv[0](v) for v in fv0])
                e1n = find_facet(cellname, [inv[1](v) for v in fv1])
                # which codes make the facet points coincide physically?  (symbolic reference point)
                pts = sym_point(ctx, facet)
                good = []
                ncodes = NCODES[facet]
                for p0 in range(ncodes):
                    for p1 in range(ncodes):
                        ph = []
                        for s, en, pc in ((0, e0n, p0), (1, e1n, p1)):
                            pp = real_permute(facet, pts, pc)
                            lam = facet_shape_functions(facet, [pp[0][k] for k in range(pts.shape[1])])
                            fvn = facet_vertices(cellname, en)
                            ph.append([sum((lam[k] * X2[s * 3 * nn + 3 * fvn[k] + i] for k in range(len(fvn))), ctx.const(0)) for i in range(gd)])
                        if all(eqcheck.qident(ctx, a - b, stats)[0] == "unsat" for a, b in zip(ph[0], ph[1])):
                            good.append((p0, p1))
                label = f"{name}:facets=({e0},{e1}):sigma={sig}"
                if not good:
                    res["violations"].append({"key": f"{name}:no-matching-code:{e0},{e1}:{sig}", "what": f"no permutation code pair makes the two sides' facet points coincide for renumbering {sig} ({label})", "replay": None})
                    continue
                test_codes = good if tier == "thorough" else good[:2]
                for (p0, p1) in test_codes:
                    new = ksym.run_kernel(kern, ctx, inp2, nA, entities=(e0n, e1n), perms=(p0, p1))
                    res["configs"] += 1
                    # expected: A_new[i'][j'] = A_base[P(i')][P(j')]
                    maps = []
                    for el in fref.arg_elements:
                        d = el.dim
                        mp = []
                        for s in range(2):
                            pd = perm_dofs(el, sig[s])
                            mp += [s * d + pd[i] for i in range(d)]
                        maps.append(mp)
                    exp = []
                    for idx in itertools.product(*[range(n) for n in shape]):
                        old = [maps[a][i] for a, i in enumerate(idx)]
                        f = 0
                        for i, n in zip(old, shape):
                            f = f * n + i
                        exp.append(base.A[f])
                    if not shape:
                        exp = [base.A[0]]
                    KU, RU = unify(ctx, new.A, exp)
                    kp, rp = split_parts(KU), split_parts(RU)
                    cs = max(coeff_scale(rp), 1e-300)
                    floor = FLOOR_STRICT * cs
                    for (lab, k), (_, r) in zip(kp, rp):
                        res["entries"] += 1
                        verdict, worst = eqcheck.qrel(ctx, k - r, r, REL_STRICT, floor, stats)
                        if verdict == "unsat":
                            continue
                        if verdict != "sat":
                            res["inconclusive"].append(f"{label} codes=({p0},{p1}) A[{lab}]: {verdict}")
                            continue
                        # replay on the compiled kernel: both calls with concrete data
                        D = k - r
                        base_env = geometry_env(cel, cellname, 2, 0)
                        used = D.vars() | r.vars()
                        env = eqcheck.witness_rel(ctx, D, r, REL_STRICT, floor, base_env, lambda e_: assumptions_hold(ctx, e_, used), tries=60)
                        if env is None:
                            res["inconclusive"].append(f"{label} codes=({p0},{p1}) A[{lab}]: sat, no witness")
                            continue
                        if lib is None:
                            lib = ksym.build_so(c, "n")
                        for v in ctx.vars:
                            if v.defn is None:
                                env.setdefault(v.name, 0.0)
                        w, cc, x = ksym.pack(inp, env)
                        A1 = ksym.call_c_kernel(lib, kern, nA, w, cc, x, (e0, e1), (0, 0))
                        w2, cc2, x2 = ksym.pack(inp2, env)
                        A2 = ksym.call_c_kernel(lib, kern, nA, w2, cc2, x2, (e0n, e1n), (p0, p1))
                        idx = int(lab.split(".")[0])
                        multi = list(itertools.product(*[range(n) for n in shape]))[idx] if shape else ()
                        old = [maps[a][i] for a, i in enumerate(multi)]
                        f = 0
                        for i, n in zip(old, shape):
                            f = f * n + i
                        va, vb = A1[f], A2[idx]
                        tol = eqcheck.allowance(ctx, D, r, REL_STRICT, floor, env)
                        if abs(va - vb) > tol:
                            res["violations"].append({"key": f"{name}:facets=({e0},{e1}):sigma={sig}:codes=({p0},{p1}):A[{lab}]",
                                                      "what": f"same two cells, renumbered by {sig} with matching codes ({p0},{p1}): kernel gives {vb!r}, baseline numbering gives {va!r} (tol {tol:.3g})",
                                                      "replay": {"kind": "numbering", "name": name, "facets": [e0, e1], "sigma": [list(s0), list(s1)], "codes": [p0, p1], "entry": lab, "env": env, "tol": tol}})
                        else:
                            res["inconclusive"].append(f"{label} codes=({p0},{p1}) A[{lab}]: sat, not reproduced")
                        break
                if len(res["samples"]) < 3:
                    res["samples"].append({"case": label, "new_facets": [e0n, e1n], "matching_codes": good, "needs_facet_permutations": idesc.needs_perm})
            # vacuity twin: a NON-matching code pair must be detected when the kernel depends on the permutation
            if idesc.needs_perm and uses_perm:
                res["twins_run"] += 1
                ncodes = NCODES[facet]
                detected = False
                for pbad in range(1, ncodes):
                    new = ksym.run_kernel(kern, ctx, inp, nA, entities=(e0, e1), perms=(0, pbad))
                    KU, RU = unify(ctx, new.A, base.A)
                    kp, rp = split_parts(KU), split_parts(RU)
                    cs = max(coeff_scale(rp), 1e-300)
                    if any(eqcheck.qrel(ctx, k - r, r, REL_STRICT, FLOOR_STRICT * cs, None)[0] == "sat" for (_, k), (_, r) in zip(kp, rp)):
                        detected = True
                        break
                if detected:
                    res["twins_ok"] += 1
                else:
                    # the kernel reads the permutation argument but its VALUE is the same for every code (e.g. piecewise-constant
                    # arguments with a symmetric rule): the twin does not apply to this kernel
                    res["twins_run"] -= 1
                    res["extra"]["twins_not_applicable"] = res["extra"].get("twins_not_applicable", 0) + 1
    res["queries"] = stats.q
    res["solver_s"] = stats.secs
