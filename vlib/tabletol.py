"""C10 (table tolerances), function level: the real tolerance-dependent helpers of
ffcx.ir.elementtables are executed on tables whose ENTRIES and TOLERANCES are symbolic (pysym
SymFloat elements in numpy object arrays, z3 per path).  numpy's isclose/allclose cannot run on
object arrays (isfinite), so inside ffcx.ir.elementtables the name `np` is replaced by a proxy whose
isclose/allclose evaluate numpy's documented formula |a-b| <= atol + rtol*|b| on the symbolic
elements; everything else (asarray, where, abs, max, indexing, masks) is real numpy.

Claims decided for all entry values and all tolerances in the stated ranges:
  clamp_table_small_numbers: every entry is either unchanged or replaced by n in {-1,0,1} with
      |n - x| <= atol + rtol*|n|   (the most the tolerances allow);
  is_zeros/is_ones/is_piecewise/is_uniform/is_permuted/equal_tables: a positive classification
      implies the entries that will be dropped/merged differ by no more than atol + rtol*|ref|."""

from __future__ import annotations

import itertools
import os
import subprocess
import sys
import time

import numpy as np
import z3

from . import pysym


class NPProxy:
    """numpy, except isclose/allclose which follow numpy's documented formula on symbolic elements."""

    def __getattr__(self, k):
        return getattr(np, k)

    @staticmethod
    def isclose(a, b, rtol=1e-05, atol=1e-08, equal_nan=False):
        a = np.asarray(a, dtype=object)
        b = np.asarray(b, dtype=object)
        bb = np.broadcast(a, b)
        out = np.empty(bb.shape, dtype=bool)
        for idx, (x, y) in zip(np.ndindex(*bb.shape), bb):
            out[idx] = bool(abs(x - y) <= atol + rtol * abs(y))
        return out

    @staticmethod
    def allclose(a, b, rtol=1e-05, atol=1e-08, equal_nan=False):
        return bool(NPProxy.isclose(a, b, rtol=rtol, atol=atol).all())


def _table(shape, prefix="x"):
    t = np.empty(shape, dtype=object)
    zs = []
    for i, idx in enumerate(np.ndindex(*shape)):
        z = z3.Real(f"{prefix}{i}")
        zs.append(z)
        t[idx] = pysym.SymFloat(z)
    return t, zs


def _ite_abs(z):
    return z3.If(z >= 0, z, -z)


def _cases():
    import ffcx.ir.elementtables as et

    rt, at = z3.Real("rtol"), z3.Real("atol")
    base = [rt > 0, rt <= z3.RealVal("1/10"), at > 0, at <= z3.RealVal("1/10")]

    def bounded(zs, B=200):
        return [z3.And(z >= -B, z <= B) for z in zs]

    def clamp():
        t, zs = _table((3,))
        out = et.clamp_table_small_numbers(t.copy(), rtol=pysym.SymFloat(rt), atol=pysym.SymFloat(at))
        conds = []
        for x, y in zip(zs, out):
            zy = pysym.zof(y) if isinstance(y, (pysym.SymFloat, pysym.SymInt, float, int)) else None
            zy = pysym._real(zy)
            ok_n = z3.Or(*[z3.And(zy == n, _ite_abs(x - n) <= at + rt * abs(n)) for n in (-1, 0, 1)])
            conds.append(z3.Or(zy == x, ok_n))
        return z3.And(*conds), zs

    def zeros():
        t, zs = _table((1, 1, 2, 2))
        r = et.is_zeros_table(t, rtol=pysym.SymFloat(rt), atol=pysym.SymFloat(at))
        return (z3.And(*[_ite_abs(z) <= at for z in zs]) if r else z3.BoolVal(True)), zs

    def ones():
        t, zs = _table((1, 1, 2, 2))
        r = et.is_ones_table(t, rtol=pysym.SymFloat(rt), atol=pysym.SymFloat(at))
        return (z3.And(*[_ite_abs(z - 1) <= at + rt for z in zs]) if r else z3.BoolVal(True)), zs

    def piecewise():
        t, zs = _table((1, 2, 3, 1))
        r = et.is_piecewise_table(t, rtol=pysym.SymFloat(rt), atol=pysym.SymFloat(at))
        if not r:
            return z3.BoolVal(True), zs
        c = []
        for e in range(2):
            for q in range(1, 3):
                a, b = pysym.zof(t[0, e, 0, 0]), pysym.zof(t[0, e, q, 0])
                c.append(_ite_abs(a - b) <= at + rt * _ite_abs(b))
        return z3.And(*c), zs

    def uniform():
        t, zs = _table((1, 3, 2, 1))
        r = et.is_uniform_table(t, rtol=pysym.SymFloat(rt), atol=pysym.SymFloat(at))
        if not r:
            return z3.BoolVal(True), zs
        c = []
        for e in range(1, 3):
            for q in range(2):
                a, b = pysym.zof(t[0, 0, q, 0]), pysym.zof(t[0, e, q, 0])
                c.append(_ite_abs(a - b) <= at + rt * _ite_abs(b))
        return z3.And(*c), zs

    def permuted():
        t, zs = _table((3, 1, 2, 1))
        r = et.is_permuted_table(t, rtol=pysym.SymFloat(rt), atol=pysym.SymFloat(at))
        if r:
            return z3.BoolVal(True), zs
        c = []
        for p in range(1, 3):
            for q in range(2):
                a, b = pysym.zof(t[0, 0, q, 0]), pysym.zof(t[p, 0, q, 0])
                c.append(_ite_abs(a - b) <= at + rt * _ite_abs(b))
        return z3.And(*c), zs

    def equal():
        t, zs = _table((2, 2))
        u, zu = _table((2, 2), "y")
        r = et.equal_tables(t, u, rtol=pysym.SymFloat(rt), atol=pysym.SymFloat(at))
        if not r:
            return z3.BoolVal(True), zs + zu
        return z3.And(*[_ite_abs(a - b) <= at + rt * _ite_abs(b) for a, b in zip(zs, zu)]), zs + zu

    return base, bounded, {"clamp_table_small_numbers": clamp, "is_zeros_table": zeros, "is_ones_table": ones, "is_piecewise_table": piecewise,
                           "is_uniform_table": uniform, "is_permuted_table": permuted, "equal_tables": equal}, (rt, at)


SHAPES = {"clamp_table_small_numbers": (3,), "is_zeros_table": (1, 1, 2, 2), "is_ones_table": (1, 1, 2, 2), "is_piecewise_table": (1, 2, 3, 1),
          "is_uniform_table": (1, 3, 2, 1), "is_permuted_table": (3, 1, 2, 1), "equal_tables": (2, 2)}


def replay_concrete(fname, vals, rtol, atol, quiet=False):
    """Call the real function on the concrete table/tolerances of a solver model."""
    import ffcx.ir.elementtables as et

    shape = SHAPES[fname]
    n = int(np.prod(shape))
    t = np.array(vals[:n], dtype=float).reshape(shape)
    bad, msg = False, ""
    tol = lambda ref: atol + rtol * abs(ref)
    if fname == "clamp_table_small_numbers":
        out = et.clamp_table_small_numbers(t.copy(), rtol=rtol, atol=atol)
        for x, y in zip(t.flatten(), out.flatten()):
            if y != x and not (y in (-1.0, 0.0, 1.0) and abs(y - x) <= tol(y) * (1 + 1e-9)):
                bad, msg = True, f"entry {x!r} became {y!r} (allowed: unchanged, or n in -1,0,1 with |n-x| <= {tol(y):.3g})"
    elif fname == "equal_tables":
        u = np.array(vals[n:2 * n], dtype=float).reshape(shape)
        if et.equal_tables(t, u, rtol=rtol, atol=atol):
            d = [(a, b) for a, b in zip(t.flatten(), u.flatten()) if abs(a - b) > tol(b) * (1 + 1e-9)]
            bad, msg = bool(d), f"tables declared equal although entries {d[:1]} differ by more than atol + rtol*|b|"
    else:
        r = getattr(et, fname)(t, rtol=rtol, atol=atol)
        pairs = []
        if fname == "is_zeros_table" and r:
            pairs = [(x, 0.0) for x in t.flatten()]
        elif fname == "is_ones_table" and r:
            pairs = [(x, 1.0) for x in t.flatten()]
        elif fname == "is_piecewise_table" and r:
            pairs = [(t[0, e, 0, 0], t[0, e, q, 0]) for e in range(shape[1]) for q in range(1, shape[2])]
        elif fname == "is_uniform_table" and r:
            pairs = [(t[0, 0, q, 0], t[0, e, q, 0]) for e in range(1, shape[1]) for q in range(shape[2])]
        elif fname == "is_permuted_table" and not r:
            pairs = [(t[0, 0, q, 0], t[p, 0, q, 0]) for p in range(1, shape[0]) for q in range(shape[2])]
        d = [(a, b) for a, b in pairs if abs(a - b) > tol(b) * (1 + 1e-9)]
        bad, msg = bool(d), f"{fname} -> {r} although entries {d[:1]} differ by more than atol + rtol*|ref|"
    if not quiet:
        print(f"{fname}(table={t.tolist()}, rtol={rtol}, atol={atol}): {msg or 'within the tolerances'}")
        print("REPRODUCED" if bad else "not reproduced")
    return bad, msg


def run(chk, tier):
    import ffcx.ir.elementtables as et

    saved = et.np
    et.np = NPProxy()
    # float(x) of a real number is the identity in the exact-arithmetic model (the builtin would realise the symbol)
    et.__dict__["float"] = lambda x: x if isinstance(x, (pysym.SymFloat, pysym.SymInt)) else float(x)
    t0 = time.time()
    try:
        base, bounded, cases, (rt, at) = _cases()
        for fname, fn in cases.items():
            npaths = 0
            chk.cases.append(f"tabletol:{fname}")
            try:
                for pc, res_, run_ in pysym.explore(fn, base, max_paths=600):
                    npaths += 1
                    if isinstance(res_, pysym.Raised):
                        chk.inconc(f"tabletol {fname}: the function raised {type(res_.exc).__name__}: {res_.exc} under the numpy proxy (construct outside the shim)")
                        break
                    claim, zs = res_
                    s = z3.Solver()
                    s.set("timeout", 20000)
                    s.add(*pc)
                    s.add(*bounded(zs))
                    s.add(z3.Not(claim))
                    r = str(s.check())
                    chk.q("Q-path", r, 0.0)
                    if r == "sat":
                        m = s.model()
                        fv = lambda z: float(m.eval(z, model_completion=True).as_fraction())
                        vals = [fv(z) for z in zs]
                        bad, msg = replay_concrete(fname, vals, fv(rt), fv(at), quiet=True)
                        if bad:
                            src = ("#!/verif/.venv/bin/python\nimport sys\nsys.path[:0]=['/verif','/repo']\nfrom vlib import tabletol\n"
                                   f"sys.exit(1 if tabletol.replay_concrete({fname!r}, {vals!r}, {fv(rt)!r}, {fv(at)!r})[0] else 0)\n")
                            chk.violation(f"tabletol:{fname}", f"ffcx.ir.elementtables.{fname} with rtol={fv(rt):.3g}, atol={fv(at):.3g} on table {vals}: {msg}", src)
                            break
                        chk.inconc(f"tabletol {fname}: solver counterexample {vals} not reproduced by the real function with real numpy")
                    elif r != "unsat":
                        chk.inconc(f"tabletol {fname}: solver {r}")
            except pysym.Unsupported as e:
                chk.inconc(f"tabletol {fname}: {e}")
            chk.extra["tabletol_paths"] = chk.extra.get("tabletol_paths", 0) + npaths
        # vacuity twin: a clamp that may move an entry by 2*(atol+rtol) must be refuted
        chk.twins_run += 1
        x = z3.Real("x")
        s = z3.Solver()
        s.add(at > 0, rt > 0, _ite_abs(x) <= 2 * (at + rt), z3.Not(_ite_abs(x) <= at))
        if str(s.check()) == "sat":
            chk.twins_ok += 1
        else:
            chk.harness_error("tabletol twin not detected")
    finally:
        et.np = saved
        et.__dict__.pop("float", None)
    chk.solver_s += time.time() - t0
    chk.sample({"function": "ffcx.ir.elementtables.clamp_table_small_numbers", "table": "3 symbolic entries in [-200,200]", "tolerances": "rtol, atol symbolic in (0, 0.1]",
                "claim": "entry unchanged, or replaced by n in {-1,0,1} with |n-x| <= atol + rtol*|n|"})
