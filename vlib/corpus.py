"""Bounded corpus of UFL programs (the stated bound on the *programs* quantifier).

Each entry is built lazily inside the worker process that analyses it.
Tags select entries per property / tier: "q" = quick tier, everything = thorough.
"""

from __future__ import annotations

import basix
import basix.ufl
import numpy as np
import ufl
from ufl import (
    FacetNormal, TestFunction, TrialFunction, avg, conditional, curl, div, dot, ds, dS, dx, exp, grad, inner,
    jump, lt, sqrt, sym, tr,
)

GD = {"interval": 1, "triangle": 2, "quadrilateral": 2, "tetrahedron": 3, "hexahedron": 3, "prism": 3}

class _Reg(dict):
    """Registry; names of the form rand:<seed>:<index> are generated on demand (vlib/randforms.py)."""

    def __missing__(self, name):
        if name.startswith("rand:") or name.startswith("randc:"):
            from . import randforms

            d = dict(name=name, build=lambda n=name: randforms.build(n), tags={"rand"}, itypes=("cell", "exterior_facet", "interior_facet"))
            if name.startswith("randc:"):
                d["scalar"] = "complex128"
            return d
        if name.startswith("randids:"):
            return dict(name=name, build=lambda n=name: rand_ids_form(n), tags={"rand"}, itypes=("cell", "exterior_facet", "interior_facet"))
        raise KeyError(name)


def rand_ids_form(name):
    """Random subdomain-id patterns: 2-5 integrals per type, each over a random tuple of ids (or everywhere),
    distinct integrands, so that every (type, id) has its own expected sum."""
    import random

    _, seed, i = name.split(":")
    r = random.Random(int(seed) * 7919 + int(i) * 104729 + 5)
    cell = r.choice(["triangle", "interval", "quadrilateral"])
    m = mesh(cell)
    V = space(m, "DG" if cell != "quadrilateral" else "DQ", 1)
    v = ufl.TestFunction(V)
    f = ufl.Coefficient(V)
    form = None
    types = r.sample(["cell", "exterior_facet", "interior_facet"], r.choice([1, 2, 2, 3]))
    j = 0
    for t in types:
        for _ in range(r.randint(2, 5)):
            j += 1
            n = r.choice([1, 1, 2, 2, 3])
            ids = tuple(r.sample(range(1, 10), n))
            sid = None if r.random() < 0.15 else (ids[0] if n == 1 else ids)
            md = {"quadrature_degree": r.choice([1, 2])} if r.random() < 0.3 else None
            M = {"cell": dx, "exterior_facet": ds, "interior_facet": dS}[t]
            kw = {"metadata": md} if md else {}
            meas = M(sid, domain=m, **kw) if sid is not None else M(domain=m, **kw)
            vv = v("+") if t == "interior_facet" else v
            ff = f("-") if t == "interior_facet" else f
            term = float(j) * (ff ** (1 + j % 2)) * vv * meas
            form = term if form is None else form + term
    return form


REG: dict[str, dict] = _Reg()


def mesh(cell, gdeg=1, gdim=None):
    gdim = gdim or GD[cell]
    return ufl.Mesh(basix.ufl.element("Lagrange", cell, gdeg, shape=(gdim,)))


def space(m, family="Lagrange", deg=1, shape=None, **kw):
    cell = m.ufl_cell().cellname
    if family == "Real":
        return ufl.FunctionSpace(m, basix.ufl.real_element(cell, ()))
    el = basix.ufl.element(family, cell, deg, shape=shape, **kw)
    return ufl.FunctionSpace(m, el)


def reg(name, tags, itypes=("cell",), **meta):
    def deco(fn):
        REG[name] = dict(name=name, build=fn, tags=set(tags.split()), itypes=itypes, **meta)
        return fn

    return deco


def select(*tags, quick=False):
    out = []
    for n, e in REG.items():
        if any(t in e["tags"] for t in tags):
            if quick and "q" not in e["tags"]:
                continue
            out.append(n)
    return out


# ---- cell integrals ---------------------------------------------------------

for _cell in ["interval", "triangle", "quadrilateral", "tetrahedron", "hexahedron", "prism"]:
    def _mk(cell=_cell):
        m = mesh(cell)
        V = space(m)
        u, v = TrialFunction(V), TestFunction(V)
        return u * v * dx

    reg(f"mass_P1_{_cell}", "c01 c07 c08 c17 c18 c20" + (" q" if _cell in ("interval", "triangle", "quadrilateral", "tetrahedron") else ""))(_mk)

for _cell in ["triangle", "quadrilateral", "tetrahedron"]:
    def _mk(cell=_cell):
        m = mesh(cell)
        V = space(m)
        u, v = TrialFunction(V), TestFunction(V)
        f = ufl.Coefficient(V)
        k = ufl.Constant(m)
        return k * f * inner(grad(u), grad(v)) * dx

    reg(f"poisson_P1_coef_{_cell}", "c01 c05 c07 c08 c09 c10 c17 c18 q")(_mk)


@reg("mass_P2_triangle", "c01 c08 c17 c18 q")
def _():
    m = mesh("triangle")
    V = space(m, deg=2)
    u, v = TrialFunction(V), TestFunction(V)
    return u * v * dx


@reg("poisson_P2_triangle", "c01 c08 c17")
def _():
    m = mesh("triangle")
    V = space(m, deg=2)
    u, v = TrialFunction(V), TestFunction(V)
    return inner(grad(u), grad(v)) * dx


@reg("poisson_P1_curved_triangle", "c01 c07 c08 c17 q")
def _():
    m = mesh("triangle", gdeg=2)
    V = space(m)
    u, v = TrialFunction(V), TestFunction(V)
    return inner(grad(u), grad(v)) * dx


@reg("mass_P1_manifold_triangle3d", "c01 c08 q")
def _():
    m = mesh("triangle", gdim=3)
    V = space(m)
    u, v = TrialFunction(V), TestFunction(V)
    f = ufl.Coefficient(V)
    return f * u * v * dx


@reg("stiff_P1_manifold_interval2d", "c01 c08 q")
def _():
    m = mesh("interval", gdim=2)
    V = space(m)
    u, v = TrialFunction(V), TestFunction(V)
    return inner(grad(u), grad(v)) * dx


@reg("elasticity_vecP1_triangle", "c01 c08 c17 c18 q")
def _():
    m = mesh("triangle")
    V = space(m, shape=(2,))
    u, v = TrialFunction(V), TestFunction(V)
    mu = ufl.Constant(m)
    return 2 * mu * inner(sym(grad(u)), sym(grad(v))) * dx + tr(sym(grad(u))) * tr(sym(grad(v))) * dx


@reg("stokes_mixed_P2P1_triangle", "c01 c08 c10")
def _():
    m = mesh("triangle")
    cell = "triangle"
    el = basix.ufl.mixed_element([basix.ufl.element("Lagrange", cell, 2, shape=(2,)), basix.ufl.element("Lagrange", cell, 1)])
    W = ufl.FunctionSpace(m, el)
    (u, p) = ufl.TrialFunctions(W)
    (v, q) = ufl.TestFunctions(W)
    return (inner(grad(u), grad(v)) - div(v) * p + q * div(u)) * dx


@reg("mixed_P1P0_triangle", "c01 c05 c08 c10 q")
def _():
    m = mesh("triangle")
    cell = "triangle"
    el = basix.ufl.mixed_element([basix.ufl.element("Lagrange", cell, 1), basix.ufl.element("DG", cell, 0)])
    W = ufl.FunctionSpace(m, el)
    (u, p) = ufl.TrialFunctions(W)
    (v, q) = ufl.TestFunctions(W)
    g = ufl.Coefficient(W)
    return (u * v + p * q + g[0] * u * q + g[1] * p * v) * dx


@reg("curlcurl_N1curl_triangle", "c01 c08 q")
def _():
    m = mesh("triangle")
    V = space(m, "N1curl", 1)
    u, v = TrialFunction(V), TestFunction(V)
    return (inner(curl(u), curl(v)) + inner(u, v)) * dx


@reg("divdiv_RT_triangle", "c01 c08 c18 q")
def _():
    m = mesh("triangle")
    V = space(m, "RT", 1)
    u, v = TrialFunction(V), TestFunction(V)
    return (div(u) * div(v) + inner(u, v)) * dx


@reg("mass_N1curl_tetrahedron", "c01 c08")
def _():
    m = mesh("tetrahedron")
    V = space(m, "N1curl", 1)
    u, v = TrialFunction(V), TestFunction(V)
    return inner(u, v) * dx


@reg("mass_symtensor_P1_triangle", "c01 c08 q")
def _():
    m = mesh("triangle")
    V = space(m, shape=(2, 2), symmetry=True)
    u, v = TrialFunction(V), TestFunction(V)
    return inner(u, v) * dx


@reg("mass_tensor_P1_triangle", "c01 c08")
def _():
    m = mesh("triangle")
    V = space(m, shape=(2, 2))
    u, v = TrialFunction(V), TestFunction(V)
    return inner(u, v) * dx


@reg("mass_enriched_P1bubble_triangle", "c01 c08 q")
def _():
    m = mesh("triangle")
    el = basix.ufl.enriched_element([basix.ufl.element("Lagrange", "triangle", 1), basix.ufl.element("Bubble", "triangle", 3)])
    V = ufl.FunctionSpace(m, el)
    u, v = TrialFunction(V), TestFunction(V)
    return u * v * dx


@reg("real_times_P1_triangle", "c01 c05 c08 q")
def _():
    m = mesh("triangle")
    V = space(m)
    R = space(m, "Real")
    v = TestFunction(V)
    r = ufl.Coefficient(R)
    f = ufl.Coefficient(V)
    return r * f * v * dx


@reg("real_trial_P1_triangle", "c01 c08")
def _():
    m = mesh("triangle")
    V = space(m)
    R = space(m, "Real")
    v = TestFunction(V)
    r = TrialFunction(R)
    return r * v * dx


@reg("quadelem_coef_triangle", "c01 c08 c11 q")
def _():
    m = mesh("triangle")
    V = space(m)
    qe = basix.ufl.quadrature_element("triangle", (), degree=2)
    Q = ufl.FunctionSpace(m, qe)
    f = ufl.Coefficient(Q)
    v = TestFunction(V)
    return f * v * dx


@reg("mass_DG0_quadrilateral", "c01 c08 q")
def _():
    m = mesh("quadrilateral")
    V = space(m, "DG", 0)
    u, v = TrialFunction(V), TestFunction(V)
    return u * v * dx


@reg("functional_f2_triangle", "c01 c05 c07 c08 c17 c18 q")
def _():
    m = mesh("triangle")
    V = space(m)
    f = ufl.Coefficient(V)
    g = ufl.Coefficient(V)
    return f * f * g * dx


@reg("functional_area_tetrahedron", "c01 c08 q")
def _():
    m = mesh("tetrahedron")
    return ufl.Constant(m) * dx(m)


@reg("linear_fv_triangle", "c01 c05 c08 c18 q")
def _():
    m = mesh("triangle")
    V = space(m)
    f = ufl.Coefficient(V)
    v = TestFunction(V)
    return f * v * dx


@reg("nonlinear_invf_triangle", "c01 c08 c17 c18 q")
def _():
    m = mesh("triangle")
    V = space(m)
    f = ufl.Coefficient(V)
    v = TestFunction(V)
    return (1.0 / f) * v * dx(degree=2)


@reg("nonlinear_sqrtexp_triangle", "c01 c08 c09 c18 q")
def _():
    m = mesh("triangle")
    V = space(m)
    f = ufl.Coefficient(V)
    k = ufl.Constant(m)
    v = TestFunction(V)
    return (sqrt(f) + exp(k * f)) * v * dx(degree=1)


@reg("nonlinear_trig_interval", "c01 c08 c18")
def _():
    m = mesh("interval")
    V = space(m)
    f = ufl.Coefficient(V)
    v = TestFunction(V)
    return (ufl.sin(f) * ufl.cos(f) + ufl.tanh(f) + ufl.atan(f)) * v * dx(degree=1)


@reg("nonlinear_power_triangle", "c01 c08 c17 q")
def _():
    m = mesh("triangle")
    V = space(m)
    f = ufl.Coefficient(V)
    v = TestFunction(V)
    return (f**3 + abs(f)) * v * dx(degree=2)


@reg("conditional_triangle", "c01 c08 c17 c18 q")
def _():
    m = mesh("triangle")
    V = space(m)
    f = ufl.Coefficient(V)
    k = ufl.Constant(m)
    v = TestFunction(V)
    return conditional(lt(f, k), f, 2.0 * k) * v * dx(degree=1)


@reg("minmax_triangle", "c01 c08 c18 q")
def _():
    m = mesh("triangle")
    V = space(m)
    f = ufl.Coefficient(V)
    k = ufl.Constant(m)
    v = TestFunction(V)
    return (ufl.max_value(f, k) + ufl.min_value(f, 0.5)) * v * dx(degree=1)


@reg("xdep_triangle", "c01 c08 c11 q")
def _():
    m = mesh("triangle")
    V = space(m)
    x = ufl.SpatialCoordinate(m)
    v = TestFunction(V)
    return x[0] * x[1] * v * dx


@reg("xdep_quadrilateral", "c01 c08")
def _():
    m = mesh("quadrilateral")
    V = space(m)
    x = ufl.SpatialCoordinate(m)
    v = TestFunction(V)
    return x[0] * v * dx


@reg("cellvolume_triangle", "c01 c08 q")
def _():
    m = mesh("triangle")
    V = space(m)
    v = TestFunction(V)
    return ufl.CellVolume(m) * v * dx


@reg("circumradius_triangle", "c01 c08")
def _():
    m = mesh("triangle")
    V = space(m)
    v = TestFunction(V)
    return ufl.Circumradius(m) * v * dx


@reg("tensorconst_triangle", "c01 c05 c08 q")
def _():
    m = mesh("triangle")
    V = space(m)
    u, v = TrialFunction(V), TestFunction(V)
    K = ufl.Constant(m, shape=(2, 2))
    b = ufl.Constant(m, shape=(2,))
    s = ufl.Constant(m)
    return (inner(K * grad(u), grad(v)) + s * dot(b, grad(u)) * v) * dx


@reg("two_rules_triangle", "c01 c08 c11 q")
def _():
    m = mesh("triangle")
    V = space(m)
    f = ufl.Coefficient(V)
    g = ufl.Coefficient(V)
    v = TestFunction(V)
    return f * v * dx(degree=1) + g * g * g * v * dx(degree=4)


@reg("poisson_Q2_quadrilateral", "c01 c08 c10")
def _():
    m = mesh("quadrilateral")
    V = space(m, "Q", 2)
    u, v = TrialFunction(V), TestFunction(V)
    return inner(grad(u), grad(v)) * dx


@reg("mass_P1_hexahedron_coef", "c01 c10")
def _():
    m = mesh("hexahedron")
    V = space(m, "Q", 1)
    f = ufl.Coefficient(V)
    v = TestFunction(V)
    return f * v * dx


@reg("vector_linear_tetrahedron", "c01 c08")
def _():
    m = mesh("tetrahedron")
    V = space(m, shape=(3,))
    v = TestFunction(V)
    f = ufl.Coefficient(V)
    return inner(f, v) * dx + div(v) * dx


# ---- facet / vertex integrals ----------------------------------------------

for _cell in ["interval", "triangle", "quadrilateral", "tetrahedron", "hexahedron"]:
    def _mk(cell=_cell):
        m = mesh(cell)
        V = space(m)
        u, v = TrialFunction(V), TestFunction(V)
        f = ufl.Coefficient(V)
        return f * u * v * ds

    reg(f"ds_mass_P1_{_cell}", "c02 c05 c07 c08 c17 c18" + (" q" if _cell in ("triangle", "quadrilateral", "tetrahedron") else ""), itypes=("exterior_facet",))(_mk)


@reg("ds_normal_triangle", "c02 c08 c18 q", itypes=("exterior_facet",))
def _():
    m = mesh("triangle")
    V = space(m)
    u, v = TrialFunction(V), TestFunction(V)
    n = FacetNormal(m)
    return dot(grad(u), n) * v * ds


@reg("ds_normal_tetrahedron", "c02 c08", itypes=("exterior_facet",))
def _():
    m = mesh("tetrahedron")
    V = space(m)
    v = TestFunction(V)
    n = FacetNormal(m)
    b = ufl.Constant(m, shape=(3,))
    return dot(b, n) * v * ds


@reg("ds_normal_quadrilateral", "c02 c08", itypes=("exterior_facet",))
def _():
    m = mesh("quadrilateral")
    V = space(m)
    v = TestFunction(V)
    n = FacetNormal(m)
    b = ufl.Constant(m, shape=(2,))
    return dot(b, n) * v * ds


@reg("ds_prism", "c02 c06 c08 q", itypes=("exterior_facet",))
def _():
    m = mesh("prism")
    V = space(m)
    u, v = TrialFunction(V), TestFunction(V)
    return u * v * ds


@reg("ds_RT_triangle", "c02 c08", itypes=("exterior_facet",))
def _():
    m = mesh("triangle")
    V = space(m, "RT", 1)
    v = TestFunction(V)
    n = FacetNormal(m)
    return dot(v, n) * ds


@reg("ds_facetarea_triangle", "c02 c08", itypes=("exterior_facet",))
def _():
    m = mesh("triangle")
    V = space(m)
    v = TestFunction(V)
    return ufl.FacetArea(m) * v * ds


@reg("dS_jump_P1_triangle", "c02 c03 c05 c07 c08 c17 c18 q", itypes=("interior_facet",))
def _():
    m = mesh("triangle")
    V = space(m)
    u, v = TrialFunction(V), TestFunction(V)
    return jump(u) * jump(v) * dS


@reg("dS_jump_DG1_coef_triangle", "c02 c03 c05 c08 c18 q", itypes=("interior_facet",))
def _():
    m = mesh("triangle")
    V = space(m, "DG", 1)
    u, v = TrialFunction(V), TestFunction(V)
    f = ufl.Coefficient(V)
    return avg(f) * jump(u) * jump(v) * dS + f("+") * u("-") * v("+") * dS


@reg("dS_ip_P1_triangle", "c02 c03 c08 q", itypes=("interior_facet",))
def _():
    m = mesh("triangle")
    V = space(m, "DG", 1)
    u, v = TrialFunction(V), TestFunction(V)
    n = FacetNormal(m)
    return (-dot(avg(grad(u)), jump(v, n)) - dot(jump(u, n), avg(grad(v)))) * dS


@reg("dS_jump_P1_tetrahedron", "c02 c03 c08", itypes=("interior_facet",))
def _():
    m = mesh("tetrahedron")
    V = space(m)
    u, v = TrialFunction(V), TestFunction(V)
    return jump(u) * jump(v) * dS


@reg("dS_linear_DG1_tetrahedron", "c02 c03 c08 q", itypes=("interior_facet",))
def _():
    m = mesh("tetrahedron")
    V = space(m, "DG", 1)
    v = TestFunction(V)
    f = ufl.Coefficient(V)
    return f("+") * v("-") * dS + f("-") * v("+") * dS


@reg("dS_jump_Q1_quadrilateral", "c02 c03 c08 q", itypes=("interior_facet",))
def _():
    m = mesh("quadrilateral")
    V = space(m, "Q", 1)
    u, v = TrialFunction(V), TestFunction(V)
    return jump(u) * jump(v) * dS


@reg("dS_linear_Q1_hexahedron", "c02 c03 c08 q", itypes=("interior_facet",))
def _():
    m = mesh("hexahedron")
    V = space(m, "Q", 1)
    v = TestFunction(V)
    f = ufl.Coefficient(V)
    return f("+") * v("-") * dS


@reg("dS_vecjump_triangle", "c02 c03 c08", itypes=("interior_facet",))
def _():
    m = mesh("triangle")
    V = space(m, "DG", 1, shape=(2,))
    u, v = TrialFunction(V), TestFunction(V)
    n = FacetNormal(m)
    return inner(jump(u, n), jump(v, n)) * dS


@reg("dP_vertex_triangle", "c02 c06 c08 q", itypes=("vertex",))
def _():
    m = mesh("triangle")
    V = space(m)
    v = TestFunction(V)
    f = ufl.Coefficient(V)
    return f * v * ufl.dP


@reg("dP_vertex_interval", "c02 c08", itypes=("vertex",))
def _():
    m = mesh("interval")
    V = space(m, deg=2)
    u, v = TrialFunction(V), TestFunction(V)
    return u * v * ufl.dP


# ---- multi-integral forms (dispatch, packing) --------------------------------


@reg("multi_ids_triangle", "c05 c06 q", itypes=("cell", "exterior_facet"))
def _():
    m = mesh("triangle")
    V = space(m)
    u, v = TrialFunction(V), TestFunction(V)
    f = ufl.Coefficient(V)
    g = ufl.Coefficient(V)
    h = ufl.Coefficient(V)
    k = ufl.Constant(m)
    return (f * u * v * dx(1) + g * u * v * dx((2, 3)) + k * u * v * dx + h * u * v * ds(5) + u * v * ds(2)
            + f * inner(grad(u), grad(v)) * dx(3))


@reg("multi_ids_repeat_metadata", "c06 c11 q", itypes=("cell",))
def _():
    m = mesh("triangle")
    V = space(m)
    u, v = TrialFunction(V), TestFunction(V)
    f = ufl.Coefficient(V)
    return f * u * v * dx(1, degree=1) + f * f * u * v * dx(1, degree=4) + u * v * dx(7) + u * v * dx((7, 1))


@reg("coef_cancel_triangle", "c05 q", itypes=("cell",))
def _():
    m = mesh("triangle")
    V = space(m)
    v = TestFunction(V)
    f = ufl.Coefficient(V)
    g = ufl.Coefficient(V)
    h = ufl.Coefficient(V)
    F = f * g * v * dx + h * v * dx
    return ufl.derivative(F, g, TrialFunction(V))


@reg("coef_subset_per_integral", "c05 c06 q", itypes=("cell", "exterior_facet", "interior_facet"))
def _():
    m = mesh("triangle")
    V = space(m, "DG", 1)
    v = TestFunction(V)
    f = ufl.Coefficient(V)
    g = ufl.Coefficient(V)
    h = ufl.Coefficient(V)
    K = ufl.Constant(m, shape=(2,))
    s = ufl.Constant(m)
    return f * v * dx + g * K[1] * v * ds + avg(h) * s * jump(v) * dS


# ---- complex ---------------------------------------------------------------


@reg("cplx_mass_triangle", "c09 q", scalar="complex128")
def _():
    m = mesh("triangle")
    V = space(m)
    u, v = TrialFunction(V), TestFunction(V)
    f = ufl.Coefficient(V)
    k = ufl.Constant(m)
    return k * f * inner(u, v) * dx


@reg("cplx_ops_triangle", "c09 q", scalar="complex128")
def _():
    m = mesh("triangle")
    V = space(m)
    v = TestFunction(V)
    f = ufl.Coefficient(V)
    g = ufl.Coefficient(V)
    return inner(ufl.conj(f) * ufl.real(g) + 1j * ufl.imag(f), v) * dx(degree=2)


@reg("cplx_helmholtz_triangle", "c09 q", scalar="complex128")
def _():
    m = mesh("triangle")
    V = space(m)
    u, v = TrialFunction(V), TestFunction(V)
    k = ufl.Constant(m)
    return (inner(grad(u), grad(v)) - k * k * inner(u, v)) * dx + 1j * k * inner(u, v) * ds


@reg("cplx_abs_sqrt_triangle", "c09", scalar="complex128")
def _():
    m = mesh("triangle")
    V = space(m)
    v = TestFunction(V)
    f = ufl.Coefficient(V)
    return inner(abs(f) * f + sqrt(f), v) * dx(degree=1)


@reg("cplx_exp_triangle", "c09", scalar="complex128")
def _():
    m = mesh("triangle")
    V = space(m)
    v = TestFunction(V)
    f = ufl.Coefficient(V)
    return inner(exp(f), v) * dx(degree=1)


def build(name):
    return REG[name]["build"]()


# ---- tensor-product forms (sum factorisation), diagonal ------------------------


def tp_mesh(cell):
    e = basix.create_tp_element(basix.ElementFamily.P, basix.CellType[cell], 1, basix.LagrangeVariant.gll_warped)
    return ufl.Mesh(basix.ufl.blocked_element(basix.ufl.wrap_element(e), shape=(GD[cell],)))


def tp_space(m, deg):
    cell = m.ufl_cell().cellname
    e = basix.create_tp_element(basix.ElementFamily.P, basix.CellType[cell], deg, basix.LagrangeVariant.gll_warped)
    return ufl.FunctionSpace(m, basix.ufl.wrap_element(e))


for _cell, _deg in [("quadrilateral", 1), ("quadrilateral", 2), ("hexahedron", 1)]:
    def _mk(cell=_cell, deg=_deg):
        m = tp_mesh(cell)
        V = tp_space(m, deg)
        u, v = TrialFunction(V), TestFunction(V)
        return u * v * dx

    reg(f"sf_mass_Q{_deg}_{_cell}", "c10 c10sf c08sf" + (" q" if _cell == "quadrilateral" else ""))(_mk)


@reg("sf_poisson_Q1_quadrilateral", "c10 c10sf c08sf q")
def _():
    m = tp_mesh("quadrilateral")
    V = tp_space(m, 1)
    u, v = TrialFunction(V), TestFunction(V)
    return inner(grad(u), grad(v)) * dx


@reg("sf_poisson_Q2_quadrilateral", "c10 c10sf c08sf")
def _():
    m = tp_mesh("quadrilateral")
    V = tp_space(m, 2)
    u, v = TrialFunction(V), TestFunction(V)
    return inner(grad(u), grad(v)) * dx


@reg("sf_coef_Q1_quadrilateral", "c10 c10sf c08sf q")
def _():
    m = tp_mesh("quadrilateral")
    V = tp_space(m, 1)
    f = ufl.Coefficient(V)
    u, v = TrialFunction(V), TestFunction(V)
    return f * u * v * dx + f * v("+") * u("+") * dS + u * v * ds


@reg("sf_linear_Q2_quadrilateral", "c10 c10sf c08sf")
def _():
    m = tp_mesh("quadrilateral")
    V = tp_space(m, 2)
    f = ufl.Coefficient(V)
    v = TestFunction(V)
    return f * v * dx


@reg("sf_action_Q1_hexahedron", "c10 c10sf c08sf")
def _():
    m = tp_mesh("hexahedron")
    V = tp_space(m, 1)
    f = ufl.Coefficient(V)
    v = TestFunction(V)
    return inner(grad(f), grad(v)) * dx


@reg("sf_nontp_Q1_quadrilateral", "c10sf")
def _():
    # ordinary (non tensor-product) elements: sum factorisation does not apply
    m = mesh("quadrilateral")
    V = space(m, "Q", 1)
    u, v = TrialFunction(V), TestFunction(V)
    return u * v * dx


@reg("diag_vec_triangle", "c10 c10diag q")
def _():
    m = mesh("triangle")
    V = space(m, shape=(2,))
    u, v = TrialFunction(V), TestFunction(V)
    f = ufl.Coefficient(space(m))
    return f * inner(grad(u), grad(v)) * dx + inner(u, v) * ds


@reg("cplx_nonlinear_inner_triangle", "c09 q", scalar="complex128")
def _():
    m = mesh("triangle")
    V = space(m)
    f = ufl.Coefficient(V)
    k = ufl.Constant(m)
    v = TestFunction(V)
    return inner(sqrt(f) + exp(k * f) + f**2, v) * dx(degree=1)


@reg("cplx_facet_inner_triangle", "c09 q", scalar="complex128", itypes=("exterior_facet", "interior_facet"))
def _():
    m = mesh("triangle")
    V = space(m, "DG", 1)
    u, v = TrialFunction(V), TestFunction(V)
    f = ufl.Coefficient(V)
    n = FacetNormal(m)
    return f * inner(u, v) * ds + inner(jump(u), jump(v)) * dS + inner(dot(grad(u), n), v) * ds


# ---- geometric quantities x restriction x integral type -------------------------

_GEOM = {
    "cellvolume": lambda m: ufl.CellVolume(m),
    "circumradius": lambda m: ufl.Circumradius(m),
    "celldiameter": lambda m: ufl.CellDiameter(m),
    "facetarea": lambda m: ufl.FacetArea(m),
    "mincelledge": lambda m: ufl.MinCellEdgeLength(m),
    "maxcelledge": lambda m: ufl.MaxCellEdgeLength(m),
    "minfacetedge": lambda m: ufl.MinFacetEdgeLength(m),
    "maxfacetedge": lambda m: ufl.MaxFacetEdgeLength(m),
    "x": lambda m: ufl.SpatialCoordinate(m)[0] + 2 * ufl.SpatialCoordinate(m)[GD[m.ufl_cell().cellname] - 1],
    "normal": lambda m: FacetNormal(m)[0] + 3 * FacetNormal(m)[GD[m.ufl_cell().cellname] - 1],
}

for _cell in ["triangle", "tetrahedron", "quadrilateral"]:
    for _g in _GEOM:
        if _g in ("minfacetedge", "maxfacetedge") and _cell != "tetrahedron":
            continue
        if _cell == "quadrilateral" and _g not in ("x", "normal", "facetarea"):
            continue

        def _mk_dS(cell=_cell, g=_g):
            m = mesh(cell)
            V = space(m, "DG", 1) if cell != "quadrilateral" else space(m, "DQ", 1)
            v = TestFunction(V)
            q = _GEOM[g](m)
            return q("+") * v("-") * dS + 2 * q("-") * v("+") * dS

        def _mk_ds(cell=_cell, g=_g):
            m = mesh(cell)
            V = space(m)
            v = TestFunction(V)
            return _GEOM[g](m) * v * ds

        _q = " q" if (_cell == "triangle" and _g in ("celldiameter", "circumradius", "x", "normal", "facetarea")) else ""
        reg(f"geom_dS_{_g}_{_cell}", "c02 c08 geom" + _q, itypes=("interior_facet",))(_mk_dS)
        reg(f"geom_ds_{_g}_{_cell}", "c02 c08 geom" + (" q" if _cell == "triangle" and _g in ("celldiameter", "facetarea") else ""), itypes=("exterior_facet",))(_mk_ds)
        if _g not in ("facetarea", "minfacetedge", "maxfacetedge", "normal"):
            def _mk_dx(cell=_cell, g=_g):
                m = mesh(cell)
                V = space(m)
                v = TestFunction(V)
                return _GEOM[g](m) * v * dx

            reg(f"geom_dx_{_g}_{_cell}", "c01 c08 geom" + (" q" if _cell == "triangle" and _g == "celldiameter" else ""))(_mk_dx)


@reg("dS_penalty_triangle", "c02 c08 q", itypes=("interior_facet",))
def _():
    m = mesh("triangle")
    V = space(m, "DG", 1)
    u, v = TrialFunction(V), TestFunction(V)
    h = ufl.CellDiameter(m)
    return (1.0 / avg(h)) * jump(u) * jump(v) * dS


# ---- element variants ------------------------------------------------------------


def tp_space_variant(m, deg, variant):
    cell = m.ufl_cell().cellname
    e = basix.create_tp_element(basix.ElementFamily.P, basix.CellType[cell], deg, getattr(basix.LagrangeVariant, variant))
    return ufl.FunctionSpace(m, basix.ufl.wrap_element(e))


@reg("sf_variants_Q3_quadrilateral", "c10 c10sf c08sf")
def _():
    m = tp_mesh("quadrilateral")
    V = tp_space_variant(m, 3, "gll_warped")
    W = tp_space_variant(m, 3, "equispaced")
    f = ufl.Coefficient(W)
    v = TestFunction(V)
    return f * v * dx


@reg("sf_variants_Q2_quadrilateral", "c10 c10sf c08sf q")
def _():
    m = tp_mesh("quadrilateral")
    V = tp_space_variant(m, 2, "gll_warped")
    W = tp_space_variant(m, 3, "equispaced")
    f = ufl.Coefficient(W)
    g = ufl.Coefficient(tp_space_variant(m, 3, "gll_warped"))
    v = TestFunction(V)
    return f * g * v * dx(degree=4)


@reg("variants_P3_triangle", "c01 c08")
def _():
    m = mesh("triangle")
    V = ufl.FunctionSpace(m, basix.ufl.element("Lagrange", "triangle", 3, lagrange_variant=basix.LagrangeVariant.gll_warped))
    W = ufl.FunctionSpace(m, basix.ufl.element("Lagrange", "triangle", 3, lagrange_variant=basix.LagrangeVariant.equispaced))
    f = ufl.Coefficient(W)
    v = TestFunction(V)
    return f * v * dx


# ---- large kernels: structural monitors only (too large for polynomial execution) ----


@reg("big_stiffness_Q3_hexahedron", "c07 c08 c19 big q")
def _():
    m = mesh("hexahedron")
    V = space(m, "Q", 3)
    u, v = TrialFunction(V), TestFunction(V)
    return inner(grad(u), grad(v)) * dx


@reg("big_mass_P4_tetrahedron", "c07 c08 c19 big")
def _():
    m = mesh("tetrahedron")
    V = space(m, deg=4)
    u, v = TrialFunction(V), TestFunction(V)
    f = ufl.Coefficient(V)
    return f * u * v * dx


@reg("big_dS_P3_tetrahedron", "c07 c08 c19 big")
def _():
    m = mesh("tetrahedron")
    V = space(m, "DG", 3)
    u, v = TrialFunction(V), TestFunction(V)
    return jump(u) * jump(v) * dS


# ---- explicit quadrature degree / scheme in metadata (deliberately below the estimate) ----

for _cell in ["interval", "triangle", "quadrilateral", "tetrahedron"]:
    for _q in range(0, 7):
        def _mk(cell=_cell, q=_q):
            m = mesh(cell)
            V = space(m, deg=2) if cell != "quadrilateral" else space(m, "Q", 2)
            f = ufl.Coefficient(V)
            v = TestFunction(space(m) if cell != "quadrilateral" else space(m, "Q", 1))
            return f * f * v * dx(metadata={"quadrature_degree": q})

        if _cell == "tetrahedron" and _q > 3:
            continue
        reg(f"deg{_q}_{_cell}", "c11 c11md" + (" q" if (_cell == "triangle" and _q <= 3) or (_cell in ("interval", "quadrilateral") and _q in (0, 1)) else ""))(_mk)


@reg("deg0_facets_triangle", "c11 c11md c02 q", itypes=("exterior_facet", "interior_facet"))
def _():
    m = mesh("triangle")
    V = space(m, "DG", 2)
    f = ufl.Coefficient(V)
    v = TestFunction(space(m, "DG", 1))
    return f * f * v * ds(metadata={"quadrature_degree": 0}) + f("+") * f("-") * v("+") * dS(metadata={"quadrature_degree": 1})


@reg("scheme_vertex_triangle", "c11 c11md q")
def _():
    m = mesh("triangle")
    V = space(m)
    u, v = TrialFunction(V), TestFunction(V)
    f = ufl.Coefficient(V)
    return f * u * v * dx(metadata={"quadrature_rule": "vertex", "quadrature_degree": 1})


@reg("scheme_vertex_facet_tetrahedron", "c11 c11md q", itypes=("exterior_facet",))
def _():
    m = mesh("tetrahedron")
    V = space(m)
    u, v = TrialFunction(V), TestFunction(V)
    return u * v * ds(metadata={"quadrature_rule": "vertex", "quadrature_degree": 1})


@reg("scheme_gll_quadrilateral", "c11 c11md q")
def _():
    m = mesh("quadrilateral")
    V = space(m, "Q", 1)
    u, v = TrialFunction(V), TestFunction(V)
    return u * v * dx(metadata={"quadrature_rule": "GLL", "quadrature_degree": 2})


@reg("same_coef_two_rules_triangle", "c11 c11md c01 q")
def _():
    m = mesh("triangle")
    V = space(m)
    f = ufl.Coefficient(V)
    u, v = TrialFunction(V), TestFunction(V)
    return f * u * v * dx(degree=1) + f * f * u * v * dx(degree=4)


@reg("same_coef_three_rules_curved", "c11 c11md c01")
def _():
    m = mesh("triangle", gdeg=2)
    V = space(m)
    f = ufl.Coefficient(V)
    v = TestFunction(V)
    return f * v * dx(degree=0) + f * f * v * dx(degree=2) + inner(grad(f), grad(v)) * dx(degree=1)


@reg("same_coef_two_rules_ds", "c11 c11md c02 q", itypes=("exterior_facet",))
def _():
    m = mesh("triangle")
    V = space(m)
    f = ufl.Coefficient(V)
    v = TestFunction(V)
    return f * v * ds(degree=0) + f * f * v * ds(degree=3)


@reg("multi_ids_tuple_scheme", "c06 c11md q", itypes=("cell", "exterior_facet"))
def _():
    m = mesh("triangle")
    V = space(m)
    u, v = TrialFunction(V), TestFunction(V)
    return (2 * u * v * dx((1, 2)) + 4 * u * v * dx(1, metadata={"quadrature_rule": "vertex", "quadrature_degree": 1})
            + 5 * u * v * ds((4, 6)) + 11 * u * v * ds(4, degree=1))


@reg("multi_ids_tuple_degrees", "c06 q", itypes=("cell",))
def _():
    m = mesh("triangle")
    V = space(m)
    f = ufl.Coefficient(V)
    v = TestFunction(V)
    return f * f * v * dx((1, 2), degree=1) + f * f * f * v * dx((1, 3), degree=3) + f * v * dx


# ---- complex mode: mixed real/complex operands -------------------------------------


@reg("cplx_conditional_mixed_branches", "c09 q", scalar="complex128")
def _():
    m = mesh("triangle")
    V = space(m)
    v = TestFunction(V)
    f = ufl.Coefficient(V)
    g = ufl.Coefficient(space(m, "DG", 0))
    return inner(conditional(lt(ufl.real(f), 0.25), 1.0, f) + conditional(ufl.gt(ufl.imag(g), 0), g, 2.0), v) * dx(degree=1)


@reg("cplx_conditional_bilinear", "c09 q", scalar="complex128")
def _():
    m = mesh("triangle")
    V = space(m)
    u, v = TrialFunction(V), TestFunction(V)
    g = ufl.Coefficient(space(m, "DG", 0))
    return conditional(lt(ufl.real(g), 0), 2.0, g) * inner(u, v) * dx + ufl.real(g) * ufl.imag(g) * inner(grad(u), grad(v)) * dx


@reg("cplx_functional_mixed", "c09 q", scalar="complex128")
def _():
    m = mesh("triangle")
    f = ufl.Coefficient(space(m))
    k = ufl.Constant(m)
    return (conditional(lt(ufl.real(f), ufl.real(k)), ufl.imag(f), f * k) + abs(f) * k + ufl.max_value(ufl.real(f), ufl.imag(k))) * dx(degree=1)


@reg("scheme_vertex_ds_triangle", "c11 c11md c02 q", itypes=("exterior_facet",))
def _():
    m = mesh("triangle")
    V = space(m)
    u, v = TrialFunction(V), TestFunction(V)
    f = ufl.Coefficient(V)
    return f * u * v * ds(metadata={"quadrature_rule": "vertex", "quadrature_degree": 1})


@reg("scheme_vertex_dS_tetrahedron", "c11 c11md c02", itypes=("interior_facet",))
def _():
    m = mesh("tetrahedron")
    V = space(m, "DG", 1)
    v = TestFunction(V)
    f = ufl.Coefficient(V)
    return f("+") * v("-") * dS(metadata={"quadrature_rule": "vertex", "quadrature_degree": 1})


@reg("logical_ops_triangle", "c01 c08 c18 c16 q")
def _():
    m = mesh("triangle")
    V = space(m)
    f = ufl.Coefficient(V)
    k = ufl.Constant(m)
    v = TestFunction(V)
    c1 = ufl.And(lt(f, k), ufl.Not(ufl.gt(f, 2 * k)))
    c2 = ufl.Or(ufl.ge(f, k), ufl.eq(k, 1.0))
    return (conditional(c1, f, 1.0) + conditional(c2, 2.0, f * f) + conditional(ufl.ne(f, k), 1.0, 3.0) + conditional(ufl.le(f, 0.5), k, 0.0)) * v * dx(degree=1)


@reg("bessel_triangle", "c01 c18")
def _():
    m = mesh("triangle")
    V = space(m)
    f = ufl.Coefficient(V)
    v = TestFunction(V)
    return (ufl.bessel_J(1, f) + ufl.bessel_Y(0, f)) * v * dx(degree=1)


@reg("mathfuncs_triangle", "c01 c18")
def _():
    m = mesh("triangle")
    V = space(m)
    f = ufl.Coefficient(V)
    v = TestFunction(V)
    return (ufl.ln(f) + ufl.erf(f) + ufl.acos(f) + ufl.asin(f) + ufl.cosh(f) + ufl.sinh(f) + ufl.atan2(f, 2.0) + f**2.5 + ufl.tan(f)) * v * dx(degree=1)


@reg("inttable_ds_tetrahedron", "c02 c08 c18", itypes=("exterior_facet",))
def _():
    m = mesh("tetrahedron")
    V = space(m)
    v = TestFunction(V)
    return ufl.MaxFacetEdgeLength(m) * v * ds


# ---- several rules with structurally identical integrands (shared temporaries / names) ----


@reg("two_rules_same_structure_triangle", "c01 c08 c11md c18 c19 q")
def _():
    m = mesh("triangle")
    V = space(m)
    u, v = TrialFunction(V), TestFunction(V)
    return u * v * dx(degree=2) + u * v * dx(degree=4)


@reg("two_rules_two_coefs_triangle", "c01 c05 c08 c11md c18 c19 q")
def _():
    m = mesh("triangle")
    V = space(m)
    u, v = TrialFunction(V), TestFunction(V)
    f, g = ufl.Coefficient(V), ufl.Coefficient(V)
    return f * u * v * dx(degree=2) + g * u * v * dx(degree=4)


@reg("three_rules_same_structure_ds", "c02 c08 c11md c19 q", itypes=("exterior_facet",))
def _():
    m = mesh("triangle")
    V = space(m)
    v = TestFunction(V)
    f = ufl.Coefficient(V)
    return f * v * ds(degree=1) + f * v * ds(degree=2) + f * v * ds(degree=5)


@reg("two_rules_same_structure_dS_tet", "c02 c08 c11md c19", itypes=("interior_facet",))
def _():
    m = mesh("tetrahedron")
    V = space(m, "DG", 1)
    u, v = TrialFunction(V), TestFunction(V)
    return jump(u) * jump(v) * dS(degree=1) + jump(u) * jump(v) * dS(degree=3)


# ---- powers and quotients (backend spelling) ---------------------------------------


@reg("powers_triangle", "c01 c08 c16 c18 q")
def _():
    m = mesh("triangle")
    V = space(m)
    f = ufl.Coefficient(V)
    k = ufl.Constant(m)
    v = TestFunction(V)
    return (f**-2 + f**-3 + f**2 + f**-1 + f**4 + k**f + f**0.5 + 1.0 / (f * f) + (f + k) ** -2) * v * dx(degree=1)


@reg("quotients_triangle", "c01 c08 c16 c18 q")
def _():
    m = mesh("triangle")
    V = space(m)
    f, g = ufl.Coefficient(V), ufl.Coefficient(V)
    k = ufl.Constant(m)
    v = TestFunction(V)
    return (f / g / k + f / (g / k) + (f - g) / (f + g) - f / g * k + -f * -g - (f - (g - k))) * v * dx(degree=1)


# ---- generated grid: cell x integral type x element x template (thorough tier; a few in quick) ----

_ELEMS = {
    "P1": lambda m: space(m),
    "P2": lambda m: space(m, deg=2),
    "DG0": lambda m: space(m, "DG", 0),
    "DG1": lambda m: space(m, "DG", 1),
    "vP1": lambda m: space(m, shape=(GD[m.ufl_cell().cellname],)),
    "Q2": lambda m: space(m, "Q", 2),
}


def _grid_form(cell, itype, ename, tmpl):
    m = mesh(cell)
    V = _ELEMS[ename](m)
    vec = ename == "vP1"
    u, v = TrialFunction(V), TestFunction(V)
    f = ufl.Coefficient(V)
    k = ufl.Constant(m)
    meas = {"cell": dx, "exterior_facet": ds, "interior_facet": dS, "vertex": ufl.dP}[itype]
    r = (lambda a: a("+")) if itype == "interior_facet" else (lambda a: a)
    rm = (lambda a: a("-")) if itype == "interior_facet" else (lambda a: a)
    if tmpl == "mass":
        return inner(r(u), rm(v)) * meas
    if tmpl == "stiff":
        return inner(grad(r(u)), grad(rm(v))) * meas
    if tmpl == "coefmass":
        w = inner(rm(f), rm(f)) if vec else rm(f)
        return k * w * inner(r(u), r(v)) * meas
    if tmpl == "linear":
        return inner(rm(f), r(v)) * meas
    if tmpl == "functional":
        return k * inner(r(f), rm(f)) * meas
    if tmpl == "gradcoef":
        return inner(grad(rm(f)), grad(r(v))) * meas
    raise ValueError(tmpl)


_GRID = []
for _cell in ["interval", "triangle", "quadrilateral", "tetrahedron", "hexahedron", "prism"]:
    for _it in ["cell", "exterior_facet", "interior_facet", "vertex"]:
        for _en in ["P1", "P2", "DG0", "DG1", "vP1"]:
            for _tm in ["mass", "stiff", "coefmass", "linear", "functional", "gradcoef"]:
                if _cell in ("quadrilateral", "hexahedron") and _en in ("P2",):
                    continue
                if _cell == "prism" and (_it == "interior_facet" or _en in ("P2", "DG1", "vP1") or _tm in ("stiff", "gradcoef")):
                    continue
                if _cell == "hexahedron" and (_en in ("vP1", "DG1") or _tm in ("stiff", "gradcoef", "coefmass") or _it == "interior_facet"):
                    continue
                if _cell == "tetrahedron" and _en == "P2" and (_tm in ("stiff", "coefmass", "gradcoef") or _it != "cell"):
                    continue
                if _cell == "tetrahedron" and _en == "vP1" and _tm in ("stiff", "coefmass", "gradcoef"):
                    continue
                if _it == "vertex" and (_en in ("DG0", "DG1") or _tm in ("stiff", "gradcoef")):
                    continue
                if _en == "DG0" and _tm in ("stiff", "gradcoef"):
                    continue
                if _cell == "interval" and _en == "vP1":
                    continue
                _GRID.append((_cell, _it, _en, _tm))

for _i, (_cell, _it, _en, _tm) in enumerate(_GRID):
    def _mk(cell=_cell, it=_it, en=_en, tm=_tm):
        return _grid_form(cell, it, en, tm)

    _tag = {"cell": "c01", "exterior_facet": "c02", "interior_facet": "c02", "vertex": "c02"}[_it]
    _extra = " c03" if (_it == "interior_facet" and _en in ("P1", "DG1", "DG0", "vP1") and _tm in ("mass", "linear") and _cell in ("triangle", "quadrilateral")) else ""
    _q = " q" if _i % 17 == 0 else ""
    reg(f"grid_{_cell}_{_it}_{_en}_{_tm}", f"{_tag} c08 c19 grid{_extra}{_q}", itypes=(_it,))(_mk)


# ---- second derivatives, components of mixed coefficients, curved facets -------------


@reg("hessian_P2_triangle", "c01 c08 c18 q")
def _():
    m = mesh("triangle")
    V = space(m, deg=2)
    f = ufl.Coefficient(V)
    v = TestFunction(V)
    return inner(grad(grad(f)), grad(grad(v))) * dx + div(grad(f)) * v * dx


@reg("mixed_components_triangle", "c01 c05 c08 q")
def _():
    m = mesh("triangle")
    el = basix.ufl.mixed_element([basix.ufl.element("Lagrange", "triangle", 2, shape=(2,)), basix.ufl.element("Lagrange", "triangle", 1), basix.ufl.element("DG", "triangle", 0)])
    W = ufl.FunctionSpace(m, el)
    w = ufl.Coefficient(W)
    uu, p, r0 = ufl.split(w)
    v = TestFunction(space(m))
    return (div(uu) * p + r0 * uu[1] + inner(grad(p), uu)) * v * dx


@reg("curl3d_N1curl_tetrahedron", "c01 c08")
def _():
    m = mesh("tetrahedron")
    V = space(m, "N1curl", 1)
    f = ufl.Coefficient(V)
    v = TestFunction(V)
    return inner(curl(f), curl(v)) * dx


@reg("ds_normal_curved_triangle", "c02 c08 q", itypes=("exterior_facet",))
def _():
    m = mesh("triangle", gdeg=2)
    V = space(m)
    v = TestFunction(V)
    n = FacetNormal(m)
    b = ufl.Constant(m, shape=(2,))
    return dot(b, n) * v * ds(degree=2)


@reg("dS_normal_jump_curved_triangle", "c02 c08", itypes=("interior_facet",))
def _():
    m = mesh("triangle", gdeg=2)
    V = space(m, "DG", 1)
    u, v = TrialFunction(V), TestFunction(V)
    n = FacetNormal(m)
    return inner(jump(u, n), jump(v, n)) * dS(degree=2)


@reg("manifold_normal_triangle3d", "c01 c08")
def _():
    m = mesh("triangle", gdim=3)
    V = space(m)
    v = TestFunction(V)
    n = ufl.CellNormal(m)
    b = ufl.Constant(m, shape=(3,))
    return dot(b, n) * v * dx


@reg("constants_only_facets", "c02 c05 c08 q", itypes=("exterior_facet", "interior_facet"))
def _():
    m = mesh("triangle")
    V = space(m, "DG", 1)
    v = TestFunction(V)
    K = ufl.Constant(m, shape=(2, 2))
    b = ufl.Constant(m, shape=(2,))
    n = FacetNormal(m)
    return dot(K * b, n) * v * ds + dot(b, n("+")) * K[1, 0] * v("-") * dS


# ---- higher-rank constants, dropped coefficients before surviving ones ----------------


@reg("rank3_constant_triangle", "c01 c05 c08 c18 q")
def _():
    m = mesh("triangle")
    V = space(m)
    v = TestFunction(V)
    f = ufl.Coefficient(V)
    K = ufl.Constant(m, shape=(2, 3, 2))
    s = ufl.Constant(m)
    b = ufl.Constant(m, shape=(2,))
    g = grad(f)
    return (K[1, 2, 0] * g[0] + K[0, 1, 1] * g[1] + K[1, 0, 1] * f + s + b[1] * K[0, 2, 1]) * v * dx


@reg("rank4_constant_elasticity_triangle", "c01 c05 c08 q")
def _():
    m = mesh("triangle")
    V = space(m, shape=(2,))
    u, v = TrialFunction(V), TestFunction(V)
    Cc = ufl.Constant(m, shape=(2, 2, 2, 2))
    i, j, k, l = ufl.indices(4)
    return Cc[i, j, k, l] * grad(u)[k, l] * grad(v)[i, j] * dx


@reg("coef_unused_in_some_integrals", "c01 c02 c05 c06 q", itypes=("cell", "exterior_facet"))
def _():
    m = mesh("triangle")
    V = space(m)
    P2 = space(m, deg=2)
    v = TestFunction(V)
    f = ufl.Coefficient(P2)
    g = ufl.Coefficient(V)
    h = ufl.Coefficient(P2)
    return f * v * dx(1) + g * v * dx(2) + h * v * ds(1) + g * h * v * dx(3) + f * v * ds(2)


# ---- complex literals on the test-function side ---------------------------------------


@reg("cplx_literal_on_test_triangle", "c09 q", scalar="complex128")
def _():
    m = mesh("triangle")
    V = space(m)
    u, v = TrialFunction(V), TestFunction(V)
    f = ufl.Coefficient(V)
    z = 2.0 + 3.0j
    return inner(f, z * v) * dx + inner(u, -1j * v) * dx + inner(f, v / z) * ds + ufl.conj(z * v) * f * dx + inner(grad(u), z * grad(v)) * dx


@reg("cplx_literal_linear_triangle", "c09 q", scalar="complex128")
def _():
    m = mesh("triangle")
    V = space(m)
    v = TestFunction(V)
    f = ufl.Coefficient(V)
    k = ufl.Constant(m)
    return inner(f, (1.5 - 0.5j) * v) * dx + inner(k * f, 1j * v) * dx(degree=1) + (0.5 + 2j) * inner(f, v) * dx


# ---- sum factorisation with schemes / several degrees ---------------------------------


@reg("sf_gll_scheme_Q2_quadrilateral", "c10 c10sf c08sf c11md q")
def _():
    m = tp_mesh("quadrilateral")
    V = tp_space(m, 2)
    u, v = TrialFunction(V), TestFunction(V)
    return u * v * dx(metadata={"quadrature_rule": "GLL", "quadrature_degree": 2})


@reg("sf_gll_scheme_Q1_hexahedron", "c10 c10sf c08sf")
def _():
    m = tp_mesh("hexahedron")
    V = tp_space(m, 1)
    f = ufl.Coefficient(V)
    v = TestFunction(V)
    return f * v * dx(metadata={"quadrature_rule": "GLL", "quadrature_degree": 3})


@reg("sf_two_degrees_quadrilateral", "c10 c10sf c08sf q")
def _():
    m = tp_mesh("quadrilateral")
    V = tp_space(m, 1)
    f = ufl.Coefficient(V)
    u, v = TrialFunction(V), TestFunction(V)
    return u * v * dx(degree=2) + f * u * v * dx(degree=4)


# ---- identical integrands under different metadata that resolve to one rule ------------


@reg("same_integrand_same_rule_interval", "c01 c11 c11md q")
def _():
    m = mesh("interval")
    V = space(m)
    x = ufl.SpatialCoordinate(m)
    v = TestFunction(V)
    return x[0] ** 2 * v * dx(degree=2) + x[0] ** 2 * v * dx(degree=3)


@reg("same_integrand_same_rule_quadrilateral", "c01 c11 c11md q")
def _():
    m = mesh("quadrilateral")
    V = space(m, "Q", 1)
    u, v = TrialFunction(V), TestFunction(V)
    return u * v * dx(degree=4) + u * v * dx(degree=5) + u * v * dx


@reg("same_integrand_same_rule_triangle", "c01 c02 c11 c11md q", itypes=("cell", "exterior_facet"))
def _():
    m = mesh("triangle")
    V = space(m)
    f = ufl.Coefficient(V)
    v = TestFunction(V)
    return f * v * dx(degree=0) + f * v * dx(degree=1) + f * v * ds(degree=2) + f * v * ds(degree=3)


# ---- element kinds x facet integral types (macro layout of non-trivial elements) -----------------

def _ek_space(m, kind):
    cell = m.ufl_cell().cellname
    gd = GD[cell]
    P = "Q" if cell in ("quadrilateral", "hexahedron") else "Lagrange"
    D = "DQ" if cell in ("quadrilateral", "hexahedron") else "DG"
    E = basix.ufl.element
    if kind == "TH":
        el = basix.ufl.mixed_element([E(P, cell, 2, shape=(gd,)), E(P, cell, 1)])
    elif kind == "P1xDG0":
        el = basix.ufl.mixed_element([E(P, cell, 1), E(D, cell, 0)])
    elif kind == "vP1xP1xDG0":
        el = basix.ufl.mixed_element([E(P, cell, 1, shape=(gd,)), E(P, cell, 1), E(D, cell, 0)])
    elif kind == "RTxDG0":
        el = basix.ufl.mixed_element([E("RT", cell, 1), E(D, cell, 0)])
    elif kind == "RT":
        el = E("RT", cell, 1)
    elif kind == "N1curl":
        el = E("N1curl", cell, 1)
    elif kind == "sym":
        el = E(P, cell, 1, shape=(gd, gd), symmetry=True)
    elif kind == "tensor":
        el = E(P, cell, 1, shape=(gd, gd))
    elif kind == "MINI":
        el = basix.ufl.enriched_element([E("Lagrange", cell, 1), E("Bubble", cell, 3 if cell == "triangle" else 4)])
    elif kind == "vDG1":
        el = E(D, cell, 1, shape=(gd,))
    else:
        raise ValueError(kind)
    return ufl.FunctionSpace(m, el)


def _ek_form(cell, itype, kind, tmpl):
    m = mesh(cell)
    W = _ek_space(m, kind)
    u, v = TrialFunction(W), TestFunction(W)
    f = ufl.Coefficient(W)
    g = ufl.Coefficient(space(m, "DG" if cell not in ("quadrilateral", "hexahedron") else "DQ", 1))
    if itype == "interior_facet":
        if tmpl == "bilinear":
            return inner(u("-"), v("+")) * dS + 2.0 * inner(u("-"), v("-")) * dS
        if tmpl == "jump":
            return inner(jump(u), jump(v)) * dS
        if tmpl == "linear":
            return g("+") * inner(f("-"), v("-")) * dS + inner(f("+"), v("-")) * dS
        return g("-") * inner(f("-"), f("+")) * dS
    meas = ds if itype == "exterior_facet" else dx
    if tmpl in ("bilinear", "jump"):
        return inner(u, v) * meas
    if tmpl == "linear":
        return g * inner(f, v) * meas
    return g * inner(f, f) * meas


_EKGRID = []
for _cell, _kinds in [("interval", ["P1xDG0"]), ("triangle", ["TH", "P1xDG0", "vP1xP1xDG0", "RTxDG0", "RT", "N1curl", "sym", "tensor", "MINI", "vDG1"]),
                      ("quadrilateral", ["TH", "P1xDG0", "sym", "vDG1"]), ("tetrahedron", ["P1xDG0", "RT", "N1curl", "vP1xP1xDG0"])]:
    for _kind in _kinds:
        for _it in ["interior_facet", "exterior_facet", "cell"]:
            for _tm in ["bilinear", "jump", "linear", "functional"]:
                if _it != "interior_facet" and _tm == "jump":
                    continue
                if _cell == "tetrahedron" and _tm in ("bilinear", "jump") and _kind != "P1xDG0":
                    continue
                if _kind == "TH" and _tm in ("bilinear", "jump") and _it != "interior_facet":
                    continue
                _EKGRID.append((_cell, _kind, _it, _tm))

for _i, (_cell, _kind, _it, _tm) in enumerate(_EKGRID):
    def _mk(cell=_cell, kind=_kind, it=_it, tm=_tm):
        return _ek_form(cell, it, kind, tm)

    _tag = "c01" if _it == "cell" else "c02 c05"
    _q = " q" if (_it == "interior_facet" and (_cell, _kind, _tm) in (("triangle", "TH", "linear"), ("triangle", "P1xDG0", "jump"), ("triangle", "RTxDG0", "functional"),
                                                                      ("quadrilateral", "P1xDG0", "linear"), ("triangle", "MINI", "jump"), ("interval", "P1xDG0", "bilinear"),
                                                                      ("triangle", "sym", "linear"))) else ""
    reg(f"ek_{_cell}_{_kind}_{_it}_{_tm}", f"{_tag} c08 c19 ek{_q}", itypes=(_it,))(_mk)


# ---- several meshes in one form (per-integral coordinate element / cell tag) ---------------------

@reg("multi_mesh_P1P2_triangle", "c06 c01 q", itypes=("cell", "exterior_facet"))
def _():
    m1, m2 = mesh("triangle"), mesh("triangle", gdeg=2)
    V = space(m1)
    u, v = TrialFunction(V), TestFunction(V)
    return u * v * dx(domain=m1) + 2.0 * u * v * dx(7, domain=m2) + 3.0 * u * v * ds(domain=m2)


@reg("multi_mesh_P2P1_functional", "c06 c01 q", itypes=("cell", "exterior_facet"))
def _():
    m1, m2 = mesh("triangle", gdeg=2), mesh("triangle")
    f = ufl.Coefficient(space(m1, "DG", 1))
    x2 = ufl.SpatialCoordinate(m2)
    return f * dx(domain=m1) + f * f * ds(3, domain=m1) + x2[0] * f * dx(5, domain=m2)


# ---- metadata given for some integrals of a subdomain and omitted for others ----------------------

def _md_mix(cell, variant):
    m = mesh(cell)
    V = space(m)
    u, v = TrialFunction(V), TestFunction(V)
    f = ufl.Coefficient(V)
    x = ufl.SpatialCoordinate(m)
    gd = GD[cell]
    y = x[gd - 1]
    if variant == "deg_then_default":
        return u * v * dx(degree=1) + f * f * u * v * dx
    if variant == "default_then_deg":
        return f * f * u * v * dx(degree=1) + u * v * dx
    if variant == "vertex_then_deg":
        return x[0] * y * v * dx(scheme="vertex", degree=1) + x[0] ** 2 * f * v * dx(degree=3)
    if variant == "deg_then_vertex":
        return x[0] ** 2 * f * v * dx(scheme="vertex", degree=1) + x[0] * y * v * dx(degree=3)
    if variant == "three":
        return f * v * dx(degree=0) + f * f * f * v * dx + x[0] * v * dx(scheme="vertex", degree=1) + y * y * f * v * dx(2) + f * v * dx(2, degree=1)
    if variant == "facets":
        return f * f * v * ds(degree=1) + x[0] * f * f * f * v * ds + f("+") * f("-") * v("+") * dS(degree=0) + f("+") ** 3 * v("-") * dS
    raise ValueError(variant)


for _cell in ["interval", "triangle", "quadrilateral", "tetrahedron"]:
    for _var in ["deg_then_default", "default_then_deg", "vertex_then_deg", "deg_then_vertex", "three", "facets"]:
        if _cell == "tetrahedron" and _var in ("three", "facets", "deg_then_default"):
            continue
        if _cell == "interval" and _var == "facets":
            continue

        def _mk(cell=_cell, var=_var):
            return _md_mix(cell, var)

        _it = ("exterior_facet", "interior_facet") if _var == "facets" else ("cell",)
        reg(f"md_mix_{_var}_{_cell}", ("c02" if _var == "facets" else "c01") + " c11 c11md c08" + (" q" if _cell in ("triangle", "interval") else ""), itypes=_it)(_mk)


# ---- complex mode: division by literals, purely imaginary literals ----------------------------------

def _cplx_lit(variant):
    m = mesh("triangle")
    V = space(m)
    u, v = TrialFunction(V), TestFunction(V)
    f = ufl.Coefficient(V)
    g = ufl.Coefficient(V)
    if variant == "div_imag":
        return inner(f / 2j, v) * dx + inner(f * u / (-0.25j), v) * dx
    if variant == "div_general":
        return inner(f / (1.5 + 2j), v) * dx + inner((f + g) / 3j, v) * dx
    if variant == "mul_recip":
        return inner(f * (1 / 2j), v) * dx + inner(u * g / 4j, v) * ds
    if variant == "imag_pow_sub":
        return inner(f - 2j * g, v) * dx + inner((3j) * f * g, v) * dx + inner(f / (g * g + 2.0) * 1j, v) * dx
    if variant == "neg_imag":
        return inner(-(2j) * f, v) * dx + inner(f * -1j - g / 1j, v) * dx
    raise ValueError(variant)


for _var in ["div_imag", "div_general", "mul_recip", "imag_pow_sub", "neg_imag"]:
    def _mk(var=_var):
        return _cplx_lit(var)

    reg(f"cplx_literal_{_var}", "c09 q", scalar="complex128", itypes=("cell", "exterior_facet"))(_mk)


# ---- coefficients eliminated by preprocessing in front of survivors; non-square tensor constants ---

@reg("coef_eliminated_before_survivor", "c05 c06 c01 q", itypes=("cell",))
def _():
    m = mesh("triangle")
    V = space(m)
    v = TestFunction(V)
    f = ufl.Coefficient(V)
    u0 = ufl.Coefficient(V)
    g = ufl.Coefficient(space(m, "DG", 1))
    return ufl.derivative(f * g * u0 * v * dx, u0, TrialFunction(V))


@reg("coef_two_eliminated_between_survivors", "c05 c06 c02 q", itypes=("cell", "exterior_facet"))
def _():
    m = mesh("triangle")
    V = space(m)
    v = TestFunction(V)
    a_, b_, c_, d_, e_ = (ufl.Coefficient(V) for _ in range(5))
    F = a_ * b_ * v * dx + c_ * e_ * e_ * v * ds + d_ * v * dx
    return ufl.derivative(F, a_, TrialFunction(V)) + ufl.derivative(F, c_, TrialFunction(V))


@reg("constants_nonsquare_shapes", "c01 c05 c08 c18 q")
def _():
    m = mesh("triangle")
    V = space(m)
    v = TestFunction(V)
    K1 = ufl.Constant(m, shape=(3, 2))
    K2 = ufl.Constant(m, shape=(2, 1))
    K3 = ufl.Constant(m, shape=(1, 3))
    k = ufl.Constant(m)
    s = sum((1.0 + 2 * i + 7 * j) * K1[i, j] for i in range(3) for j in range(2))
    return s * v * dx + K2[1, 0] * K3[0, 2] * k * v * dx + (K3[0, 1] + K2[0, 0]) * v * dx


@reg("constants_nonsquare_facets", "c02 c05 c08 q", itypes=("exterior_facet", "interior_facet"))
def _():
    m = mesh("interval")
    V = space(m, "DG", 1)
    u, v = TrialFunction(V), TestFunction(V)
    K1 = ufl.Constant(m, shape=(4, 3))
    K2 = ufl.Constant(m, shape=(2, 3, 1))
    return K1[3, 2] * K1[0, 1] * u * v * ds + (K2[1, 2, 0] + K1[2, 0]) * u("+") * v("-") * dS


# ---- integrals over several ids interleaved with others (sort permutations that are not involutions) ----

def _ids_form(variant):
    m = mesh("triangle")
    V = space(m)
    v = TestFunction(V)
    f, g, h = ufl.Coefficient(V), ufl.Coefficient(V), ufl.Coefficient(V)
    if variant == "a":
        return f * v * dx((1, 4)) + g * g * v * dx(2) + h * v * dx(3)
    if variant == "b":
        return f * v * dx((1, 2, 3)) + g * g * v * dx(2) + f * h * v * dx
    if variant == "c":
        return f * v * dx((1, 3, 5)) + g * g * v * dx((2, 4))
    if variant == "d":
        return f * v * ds((5, 1)) + g * g * v * ds(3) + h * v * ds((2, 7)) + f * v * dx((9, 4)) + g * v * dx(6) + h * h * v * dx((5, 1))
    if variant == "e":
        return f * v * dx((10, 2)) + g * g * v * dx((7, 1)) + h * v * dx(5) + f * g * v * dx((3, 8))
    raise ValueError(variant)


for _var in "abcde":
    def _mk(var=_var):
        return _ids_form(var)

    reg(f"multi_ids_interleaved_{_var}", "c06 c01 c18" + (" q" if _var in "ade" else ""), itypes=("cell", "exterior_facet"))(_mk)


# ---- one cell-wise constant factor shared by all blocks, more quadrature points than tensor entries ----

def _const_factor(cell, variant):
    m = mesh(cell)
    V = space(m)
    v = TestFunction(V)
    k = ufl.Constant(m)
    if variant == "linear":
        return k * v * dx(degree=4)
    if variant == "functional":
        return k * dx(degree=2) + k * ds(degree=3)
    if variant == "bubble":
        B = ufl.FunctionSpace(m, basix.ufl.element("Bubble", cell, 3 if cell == "triangle" else 2))
        return k * TestFunction(B) * dx
    if variant == "unit":
        return v * dx(degree=3) + v * ds(degree=2)
    raise ValueError(variant)


for _cell in ["interval", "triangle", "tetrahedron"]:
    for _var in ["linear", "functional", "bubble", "unit"]:
        if _cell == "tetrahedron" and _var == "bubble":
            continue

        def _mk(cell=_cell, var=_var):
            return _const_factor(cell, var)

        reg(f"const_factor_{_var}_{_cell}", "c01 c02 c07 c08 c17 c18" + (" q" if _cell != "tetrahedron" else ""), itypes=("cell", "exterior_facet"))(_mk)


# ---- complex mode: powers of complex quantities with real-typed exponents ---------------------------

def _cplx_pow(variant):
    m = mesh("triangle")
    V = space(m)
    v = TestFunction(V)
    f = ufl.Coefficient(V)
    x = ufl.SpatialCoordinate(m)
    if variant == "float_exp":
        return inner(f ** 1.5, v) * dx(degree=1)
    if variant == "half":
        return inner(f ** 0.5 + f ** 2.0, v) * dx(degree=1)
    if variant == "int_exp":
        return inner(f ** 2 + f ** 3, v) * dx(degree=1)
    if variant == "geom_exp":
        return inner(f ** (1.0 + x[0]), v) * dx(degree=1)
    raise ValueError(variant)


for _var in ["float_exp", "half", "int_exp", "geom_exp"]:
    def _mk(var=_var):
        return _cplx_pow(var)

    reg(f"cplx_pow_{_var}", "c09 q", scalar="complex128")(_mk)


# ---- a one-point rule and a multi-point rule share a non-constant OPERATOR sub-expression ------------

def _shared_op(cell, variant):
    m = mesh(cell)
    V = space(m)
    v = TestFunction(V)
    f = ufl.Coefficient(V)
    g = ufl.Coefficient(V)
    x = ufl.SpatialCoordinate(m)
    y = x[GD[cell] - 1]
    if variant == "square":
        return f * f * v * dx(degree=1) + f * f * x[0] * v * dx(degree=4)
    if variant == "functional":
        return (x[0] + 2 * y) * dx(degree=1) + (x[0] + 2 * y) * x[0] * dx(degree=2)
    if variant == "sqrt":
        return sqrt(f * f + 1.0) * v * dx(degree=0) + sqrt(f * f + 1.0) * g * v * dx(degree=3)
    if variant == "nested":
        return (f * g + f) * v * dx(degree=1) + ((f * g + f) * (f * g + f) + g) * v * dx(degree=3) + (f * g) * v * dx(degree=2)
    if variant == "facet":
        return f * g * v * ds(degree=1) + f * g * y * v * ds(degree=3) + f("+") * g("-") * v("+") * dS(degree=0) + f("+") * g("-") * f("-") * v("+") * dS(degree=2)
    raise ValueError(variant)


for _cell in ["interval", "triangle", "quadrilateral"]:
    for _var in ["square", "functional", "sqrt", "nested", "facet"]:
        if _cell == "interval" and _var == "facet":
            continue

        def _mk(cell=_cell, var=_var):
            return _shared_op(cell, var)

        _it = ("exterior_facet", "interior_facet") if _var == "facet" else ("cell",)
        reg(f"shared_op_{_var}_{_cell}", ("c02" if _var == "facet" else "c01") + " c11 c11md c08 c17" + (" q" if _cell == "triangle" or (_cell == "interval" and _var in ("square", "nested")) else ""), itypes=_it)(_mk)


# ---- prism: facet integrals over several subdomain ids (two kernels per id: triangle and quadrilateral facets) ----

@reg("multi_ids_prism_ds", "c06 c02 c08 c18 q", itypes=("cell", "exterior_facet"))
def _():
    m = mesh("prism")
    V = space(m)
    v = TestFunction(V)
    f = ufl.Coefficient(V)
    return f * v * ds((1, 3)) + 3.0 * f * f * v * ds(2) + f * v * dx


@reg("multi_ids_prism_ds_everywhere", "c06 c02 q", itypes=("exterior_facet",))
def _():
    m = mesh("prism")
    V = space(m)
    u, v = TrialFunction(V), TestFunction(V)
    return u * v * ds + 2.0 * u * v * ds(1) + 5.0 * u * v * ds((4, 2))


# ---- blocked (vector/tensor valued) bilinear forms whose component blocks are identical ----------------

def _vec_bilinear(cell, variant):
    m = mesh(cell)
    gd = GD[cell]
    V = space(m, shape=(gd,)) if variant != "tensor" else space(m, shape=(gd, gd))
    u, v = TrialFunction(V), TestFunction(V)
    if variant == "mass":
        return inner(u, v) * dx
    if variant == "stiff":
        return inner(grad(u), grad(v)) * dx
    if variant == "tensor":
        return inner(u, v) * dx
    if variant == "facet":
        return inner(u, v) * ds + inner(u("+"), v("-")) * dS
    raise ValueError(variant)


for _cell in ["interval", "triangle", "quadrilateral", "tetrahedron"]:
    for _var in ["mass", "stiff", "tensor", "facet"]:
        if _cell == "interval" and _var in ("tensor",):
            continue
        if _cell == "tetrahedron" and _var in ("tensor", "facet", "stiff"):
            continue

        def _mk(cell=_cell, var=_var):
            return _vec_bilinear(cell, var)

        _it = ("exterior_facet", "interior_facet") if _var == "facet" else ("cell",)
        reg(f"vec_bilinear_{_var}_{_cell}", ("c02" if _var == "facet" else "c01") + " c07 c08 c10 c17 c18" + (" q" if _cell in ("triangle", "interval") else ""), itypes=_it)(_mk)


# ---- quadrature elements whose points are not in lexicographic order (degree >= 3 on simplices) ----------

def _qe_form(cell, deg, variant):
    m = mesh(cell)
    V = space(m)
    v = TestFunction(V)
    x = ufl.SpatialCoordinate(m)
    qe = basix.ufl.quadrature_element(cell, (), degree=deg)
    f = ufl.Coefficient(ufl.FunctionSpace(m, qe))
    g = ufl.Coefficient(V)
    if variant == "weighted":
        return f * x[0] * v * dx
    if variant == "functional":
        return f * g * x[GD[cell] - 1] * dx
    return f * v * dx


for _cell, _deg in [("triangle", 3), ("triangle", 5), ("tetrahedron", 2), ("interval", 4), ("quadrilateral", 3)]:
    for _var in ["weighted", "functional"]:
        def _mk(cell=_cell, deg=_deg, var=_var):
            return _qe_form(cell, deg, var)

        reg(f"quadrature_element_deg{_deg}_{_var}_{_cell}", "c01 c11 c11md c08" + (" q" if _cell in ("triangle", "tetrahedron") and _var == "weighted" else ""))(_mk)


# ---- complex mode: vector/tensor-valued inner() with complex data in its second operand, no explicit conj ----

def _cplx_inner(variant):
    m = mesh("triangle")
    V = space(m)
    W = space(m, shape=(2,))
    u, v = TrialFunction(V), TestFunction(V)
    U, Vv = TrialFunction(W), TestFunction(W)
    K = ufl.Coefficient(space(m, "DG", 0, shape=(2, 2)))
    G = ufl.Coefficient(W)
    if variant == "grad_K_grad":
        return inner(grad(u), dot(K, grad(v))) * dx
    if variant == "U_K_V":
        return inner(U, dot(K, Vv)) * dx
    if variant == "gradU_outer":
        return inner(grad(U), ufl.outer(G, Vv)) * dx
    if variant == "linear_K":
        return inner(G, dot(K, Vv)) * dx + inner(grad(G), ufl.outer(G, Vv)) * ds
    raise ValueError(variant)


for _var in ["grad_K_grad", "U_K_V", "gradU_outer", "linear_K"]:
    def _mk(var=_var):
        return _cplx_inner(var)

    reg(f"cplx_inner_{_var}", "c09 q", scalar="complex128", itypes=("cell", "exterior_facet"))(_mk)


# ---- quadrilateral dS forms using derivative tables that are permutation-invariant on local facet 0 only ----

@reg("dS_gradjump_DQ1_quadrilateral", "c02 c03 c08 q", itypes=("interior_facet",))
def _():
    m = mesh("quadrilateral")
    V = space(m, "DQ", 1)
    u, v = TrialFunction(V), TestFunction(V)
    return inner(jump(grad(u)), jump(grad(v))) * dS


@reg("dS_avggrad_Q1_linear_quadrilateral", "c02 c03 c08 q", itypes=("interior_facet",))
def _():
    m = mesh("quadrilateral")
    V = space(m, "Q", 1)
    v = TestFunction(V)
    f = ufl.Coefficient(V)
    return inner(avg(grad(f)), jump(grad(v))) * dS
