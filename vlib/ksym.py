"""Run one generated kernel symbolically and compile the same text for replay."""

from __future__ import annotations

import ctypes
import hashlib
import subprocess
from pathlib import Path

import numpy as np

from . import cfront
from .kir import Arr, BudgetExceeded, Interp
from .poly import CPoly, Ctx, KsymError, Poly
from .uflref import Inputs


class KResult:
    def __init__(self, A, interp: Interp):
        self.A = A
        self.interp = interp


def make_A0(ctx: Ctx, nA: int, complex_mode: bool, symbolic: bool):
    if not symbolic:
        z = ctx.const(0)
        return [CPoly(z, z) if complex_mode else z for _ in range(nA)]
    if complex_mode:
        return [CPoly(ctx.inp(f"A0_{i}r", "A0"), ctx.inp(f"A0_{i}i", "A0")) for i in range(nA)]
    return [ctx.inp(f"A0_{i}", "A0") for i in range(nA)]


def run_kernel(kernel, ctx: Ctx, inputs: Inputs, nA: int, entities=(0, 0), perms=(0, 0),
               symbolic_A0: bool = False, term_budget: int = 400000, n_ent=2, n_perm=2) -> KResult:
    cm = kernel.scalar_tclass == "complex" if kernel.lang == "c" else inputs.complex_mode
    it = Interp(ctx, kernel.lang, cm)
    it.term_budget = term_budget
    stc = "complex" if cm else "real"
    A0 = make_A0(ctx, nA, cm, symbolic_A0)
    W = list(inputs.W)
    C = list(inputs.C)
    if cm:
        W = [w if isinstance(w, CPoly) else CPoly(w, ctx.const(0)) for w in W]
        C = [c if isinstance(c, CPoly) else CPoly(c, ctx.const(0)) for c in C]
    arrs = {
        "A": Arr("A", (nA,), A0, stc, "out"),
        "w": Arr("w", (len(W),), W, stc, "in"),
        "c": Arr("c", (len(C),), C, stc, "in"),
        "coordinate_dofs": Arr("coordinate_dofs", (len(inputs.X),), list(inputs.X), "real", "in"),
        "entity_local_index": Arr("entity_local_index", (n_ent,), list(entities)[:n_ent], "int", "intin"),
        "quadrature_permutation": Arr("quadrature_permutation", (n_perm,), list(perms)[:n_perm], "int", "intin"),
    }
    if kernel.lang == "c":
        for p in kernel.params:
            if p["name"] in arrs:
                it.bind_param(p["name"], arrs[p["name"]])
    else:
        it.param_arrays = arrs
        for k, a in arrs.items():
            it.bind_param("_" + k, a)
    it.run(kernel.body)
    return KResult(arrs["A"].data, it)


# ---------------------------------------------------------------------------
# real build of the same text (gcc) for translator self-validation and replay


_SO_CACHE: dict[str, ctypes.CDLL] = {}


def build_so(c_text: str, tag: str = "k", extra_flags=()) -> ctypes.CDLL:
    h = hashlib.sha1((c_text + " ".join(extra_flags)).encode()).hexdigest()[:16]
    if h in _SO_CACHE:
        return _SO_CACHE[h]
    d = Path("/verif/.work/so")
    d.mkdir(parents=True, exist_ok=True)
    cf = d / f"{tag}_{h}.c"
    so = d / f"{tag}_{h}.so"
    if not so.exists():
        cf.write_text(c_text)
        r = subprocess.run(
            ["gcc", "-std=c17", "-O1", "-fPIC", "-shared", "-I" + cfront.UFCX_DIR, *extra_flags, str(cf), "-o", str(so), "-lm"],
            capture_output=True, text=True,
        )
        if r.returncode:
            raise CompileError(r.stderr[:2000])
    lib = ctypes.CDLL(str(so))
    _SO_CACHE[h] = lib
    return lib


class CompileError(Exception):
    pass


_NP = {"double": np.float64, "float": np.float32, "double _Complex": np.complex128, "float _Complex": np.complex64}


def call_c_kernel(lib, kernel, nA, w, c, x, entities=(0, 0), perms=(0, 0), A0=None):
    """Call the compiled kernel with concrete numpy data; returns A (numpy)."""
    pt = {p["name"]: p["ctype"] for p in kernel.params}
    st = _NP[pt["A"]]
    rt = _NP[pt["coordinate_dofs"]]
    A = np.zeros(nA, dtype=st) if A0 is None else np.array(A0, dtype=st)
    w = np.array(w, dtype=st)
    c = np.array(c, dtype=st)
    x = np.array(x, dtype=rt)
    e = np.array(list(entities), dtype=np.intc)
    p = np.array(list(perms), dtype=np.uint8)
    fn = getattr(lib, kernel.name)
    fn.restype = None
    fn.argtypes = [ctypes.c_void_p] * 7
    fn(A.ctypes.data, w.ctypes.data, c.ctypes.data, x.ctypes.data, e.ctypes.data, p.ctypes.data, None)
    return A


def concrete_inputs(inputs: Inputs, seed: int, nA: int = 0, box=1.0):
    """Deterministic rational-ish concrete values for all input symbols (for self-validation)."""
    rng = np.random.RandomState(seed)
    env = {}
    names = [v.name for v in inputs.ctx.vars if v.defn is None]
    for n in names:
        env[n] = float(np.round(rng.uniform(-box, box), 3))
    return env


def pack(inputs: Inputs, env: dict, ref_coords=None):
    """numpy w, c, x arrays from an env of named values."""
    def val(p):
        if isinstance(p, CPoly):
            return complex(p.re.eval(env), p.im.eval(env))
        return p.eval(env)

    w = [val(p) for p in inputs.W]
    c = [val(p) for p in inputs.C]
    x = [val(p) for p in inputs.X]
    return w, c, x
