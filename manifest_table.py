ENGINES = [
 {"name": "ksym", "path": "vlib/kir.py, vlib/cfront.py, vlib/pyfront.py, vlib/ksym.py", "serves_properties": [], "kind_free_text": "symbolic executor of the generated kernel text (C via gcc -E + pycparser, numba via ast) in an exact polynomial domain with atoms"},
 {"name": "uflref", "path": "vlib/uflref.py", "serves_properties": [], "kind_free_text": "independent UFL evaluator (oracle) producing values in the same domain"},
 {"name": "eqcheck", "path": "vlib/eqcheck.py", "serves_properties": [], "kind_free_text": "z3 queries: Q-tol (QF_LRA monomial abstraction), Q-ident (polynomial disequality), Q-dep, Q-lia"},
]
NOTES = "Solver-based checking of the real code; see DESIGN.md. Under construction: properties move from not_applicable to checks as their check lands."
PENDING = "check under construction in this session (see DESIGN.md section 3); not yet claimed"
NOT_APPLICABLE = {f"C{i:02d}": PENDING for i in range(1, 21)}
NOT_APPLICABLE["C12"] = "hash-seed / history determinism of the whole pipeline cannot be encoded for a solver: the nondeterminism sources (SipHash set order, global UFL counters) are not function inputs and only re-running subprocesses (sampling, another technique family) decides it; see DESIGN.md section 4"
TB = "Trusted base: UFL lowering (compute_form_data), basix (tabulation, quadrature, reference geometry), numpy, gcc -E + pycparser front-end, z3; exact real/complex arithmetic instead of floating point; bounded corpus of forms (programs) as listed in the evidence; box |w|,|c|<=2, coordinates within +-2, every divisor bounded away from 0 by 0.05; atoms identified at 1e-11."
CHECKS = {
 "C01": dict(engine="ksym+uflref+eqcheck", level="translation_validation", ref="DESIGN.md section 3 C01",
   text="The C text the compiler emits now for every cell integral of a bounded corpus (scalar/vector/mixed/Piola/enriched/real/quadrature elements, affine, curved and manifold geometry, arity 0-2) is executed symbolically with all kernel inputs as symbols and compared entry by entry with an independent UFL evaluator; z3 (QF_LRA, independent-monomial abstraction) proves |K-R| <= 1e-9 relative pointwise for all inputs in the box, or a witness is replayed on the gcc build. Per-program translation validation is the right level: the compiler is too large to verify once and for all, its output per program is a small loop program that can be decided for every input.",
   note=TB, technique="symbolic execution of generated C + SMT (z3 QF_LRA) equivalence against a UFL reference evaluator"),
 "C02": dict(engine="ksym+uflref+eqcheck", level="translation_validation", ref="DESIGN.md section 3 C02",
   text="Same as C01 for exterior-facet, interior-facet and vertex kernels: every local entity index (every (+,-) facet pair in the thorough tier) is enumerated, w/c/coordinates of both cells are symbolic, the oracle maps reference facet points and lays out A, w and coordinate_dofs as the UFCx contract states; permutation codes (0,0) here, the others in C03.",
   note=TB, technique="symbolic execution of generated C + SMT (z3 QF_LRA) equivalence against a UFL reference evaluator, entities enumerated"),
 "C07": dict(engine="ksym+eqcheck", level="other", ref="DESIGN.md section 3 C07",
   text="Every kernel of the corpus is executed with a symbolic initial A; z3 decides (Q-dep) that A_final - A_initial does not depend on any initial-A symbol; the executor's memory monitors show no store to an input or table, no uninitialised value reaching A, no non-const static and no file-scope object referenced. Holds for all inputs of each kernel; thread-safety is argued from these facts, not explored.",
   note=TB + " Concurrency is not explored (argued from re-entrancy).", technique="symbolic execution of generated C with symbolic initial A + z3 dependence query"),
 "C08": dict(engine="ksym(sites)+z3", level="other", ref="DESIGN.md section 3 C08",
   text="For every array access site of every generated kernel (loops NOT unrolled) one QF_LIA query asks for loop indices, entity index and permutation code within their ranges that put a subscript outside the declared extent (locals/tables) or the extent the form implies (parameters); unsat for all sites = in bounds for every iteration and every valid entity/permutation. A sat model is replayed under ASan/UBSan with exact-size heap buffers.",
   note="Extents of parameters are computed by the harness from UFL/basix element dimensions; gcc sanitizers are the replay oracle; corpus of forms is bounded.", technique="QF_LIA (z3) bounds query per access site of the generated C, ASan replay"),
 "C10": dict(engine="ksym+eqcheck(kvk)", level="translation_validation", ref="DESIGN.md section 3 C10",
   text="The same form is compiled under two option sets (sum_factorization on/off with tensor-product elements; part=diagonal vs full; table_rtol/atol pairs; options on integrals they do not apply to) and both texts are executed on the same symbolic inputs; z3 decides equality (exact where tables are identical, pointwise-relative otherwise) for every entry; counterexamples are replayed on both gcc builds.",
   note=TB + " A Python exception raised for an option/cell combination is recorded as an explicit rejection, not as a changed tensor.", technique="symbolic execution of two generated kernels + SMT equivalence (z3 polynomial disequality / QF_LRA)"),
 "C17": dict(engine="ksym+eqcheck(kvk), lnodes_sym", level="other", ref="DESIGN.md section 3 C17",
   text="(b) every corpus kernel is generated with and without the optimiser passes (module-attribute replacement, no source hook) and the two texts are proved equal for all inputs (Q-ident, exact); (a) the lnodes operator overloads are executed on symbolic literal values and their result tree is compared with the unsimplified operation.",
   note=TB, technique="symbolic execution + z3 polynomial identity of optimised vs unoptimised kernels; symbolic execution of lnodes overloads"),
}
