ENGINES = [
 {"name": "ksym", "path": "vlib/kir.py, vlib/cfront.py, vlib/pyfront.py, vlib/ksym.py", "serves_properties": [], "kind_free_text": "symbolic executor of the generated kernel text (C via gcc -E + pycparser, numba via ast) in an exact polynomial domain with atoms"},
 {"name": "uflref", "path": "vlib/uflref.py", "serves_properties": [], "kind_free_text": "independent UFL evaluator (oracle) producing values in the same domain"},
 {"name": "eqcheck", "path": "vlib/eqcheck.py", "serves_properties": [], "kind_free_text": "z3 queries: Q-tol (QF_LRA monomial abstraction), Q-ident (polynomial disequality), Q-dep, Q-lia"},
]
NOTES = "Solver-based checking of the real code; see DESIGN.md. Under construction: properties move from not_applicable to checks as their check lands."
PENDING = "check under construction in this session (see DESIGN.md section 3); not yet claimed"
NOT_APPLICABLE = {f"C{i:02d}": PENDING for i in range(1, 21)}
NOT_APPLICABLE["C12"] = "hash-seed / history determinism of the whole pipeline cannot be encoded for a solver: the nondeterminism sources (SipHash set order, global UFL counters) are not function inputs and only re-running subprocesses (sampling, another technique family) decides it; see DESIGN.md section 4"
CHECKS = {}
