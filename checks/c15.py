"""C15: a failed or killed JIT build never poisons later requests or the process."""
from vlib import jitcheck
from vlib.common import Check, parse_args, run_main


def main():
    a = parse_args("C15")
    chk = Check("C15", "model_checking", a.tier)
    jitcheck.run_c15(chk, a.tier)
    chk.extra.setdefault("traces_validated_against_impl", 0)
    chk.encoded("ffcx.codegeneration.jit.compile_forms / _compile_objects failure paths (except: os.replace -> .failed; handler swap around ffibuilder.compile)")
    chk.bounds = {"processes N": "2 (quick); 2..3 (thorough)", "timeout polls T": "2..3", "faults": "code generation raises; C compiler raises; (thorough) marker write raises; a process may be killed before any event", "depth": "N x longest trace + 2"}
    chk.assumptions = ["POSIX file semantics as in C14", "a killed process simply stops between two logged events", "process-global state observed: logging.getLogger().handlers and sys.stdout"]
    chk.finish("per-leaf observation of the real functions under every fault script + unrolled BMC with symbolic fault/kill choices (z3); handler-leak counterexample replayed with a real cffi build whose compiler invocation fails")


run_main(main)
