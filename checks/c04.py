"""C04: expression kernels evaluate the expression at the given points."""
from vlib import exprcheck
from vlib.common import Check, parse_args, run_main
from vlib.driver import run_cases


def main():
    a = parse_args("C04")
    chk = Check("C04", "translation_validation", a.tier)
    names = exprcheck.select(quick=(a.tier == "quick"))
    if a.only:
        names = [n for n in names if n in a.only.split(",")]
    run_cases(chk, "vlib.exprcheck", "expr_case", names, {"tier": a.tier}, a.jobs)
    rn = [f"randexpr:{chk.seed}:{i}" for i in range(16 if a.tier == "quick" else 240)] if not a.only else []
    run_cases(chk, "vlib.exprcheck", "expr_case", rn, {"tier": "quick"}, a.jobs)
    chk.extra["random_expressions"] = len(rn)
    if a.tier == "thorough":
        run_cases(chk, "vlib.exprcheck", "expr_case", [n for n in names if "nonlinear" not in n], {"tier": a.tier, "scalar": "complex128"}, a.jobs)
    chk.encoded("generated tabulate_tensor_expression_* C text and ufcx_expression initialisers (ffcx.analysis._analyze_expression, ir.representation._compute_expression_ir, expression_generator)")
    chk.bounds = {"programs": len(names), "points": "fixed per expression (they are part of the compiled object)", "facet expressions": "every local facet x every permutation code (2 on interval, 6 on triangle, 8 on quadrilateral facets; a covering subset in quick)",
                  "inputs": "all w, c, coordinate_dofs symbolic"}
    chk.assumptions = ["exact arithmetic", "UFL lowering sequence for expressions as documented (harness-side)", "descriptor fields are concrete comparisons (no solver)",
                       "one reflection of an interval facet maps p to 1-p"]
    chk.finish("expression kernel text executed symbolically vs the lowered UFL expression evaluated per point/component/argument dof; Q-tol per A entry")


run_main(main)
