"""C10: optimisation options never change the computed tensor."""
from vlib import corpus
from vlib.common import Check, parse_args, run_main
from vlib.driver import run_cases
from vlib.formcheck import STRICT_OPTS


def main():
    a = parse_args("C10")
    chk = Check("C10", "translation_validation", a.tier)
    q = a.tier == "quick"
    only = a.only.split(",") if a.only else None
    f = lambda ns: [n for n in ns if not only or n in only]
    sf = f(corpus.select("c10sf", quick=q))
    diag = f([n for n in corpus.select("c10", "c01", "c02", quick=q)])
    # 1. sum factorisation on / off (tables are recomputed -> Q-tol, strict table tolerances)
    spec = {"tier": a.tier, "A": {"options": dict(STRICT_OPTS)}, "B": {"options": dict(STRICT_OPTS, sum_factorization=True)},
            "mode": "rel", "rel": 1e-9, "what": "sum_factorization True vs False", "b_may_reject": True}
    run_cases(chk, "vlib.kvk", "compare", sf, spec, a.jobs)
    # 2. options that do not apply: sum factorisation on facet/vertex integrals of any cell
    na = f(corpus.select("c02", quick=q))
    spec = {"tier": a.tier, "A": {}, "B": {"options": {"sum_factorization": True}}, "mode": "ident",
            "what": "sum_factorization on facet/vertex integrals (not applicable)", "b_may_reject": True}
    run_cases(chk, "vlib.kvk", "compare", na, spec, a.jobs)
    # 3. part=diagonal vs the diagonal of the full tensor (rank 2); rank != 2: no effect
    spec = {"tier": a.tier, "A": {}, "B": {"options": {"part": "diagonal"}}, "mode": "ident", "map": "diagonal",
            "what": "part=diagonal vs diagonal of full tensor", "b_may_reject": True}
    run_cases(chk, "vlib.kvk", "compare", diag, spec, a.jobs)
    from vlib import randforms
    rnames = [randforms.name_of(chk.seed, i) for i in range(12 if a.tier == "quick" else 160)] if not a.only else []
    run_cases(chk, "vlib.kvk", "compare", rnames, {"tier": "quick", "A": {}, "B": {"options": {"part": "diagonal"}}, "mode": "ident", "map": "diagonal",
                                                  "what": "part=diagonal vs diagonal of full tensor (random forms)", "b_may_reject": True}, a.jobs)
    chk.extra["random_forms"] = len(rnames)
    # 4. table tolerances: result moves by no more than the tolerances allow
    tt = f(corpus.select("c10", "c01", quick=True))
    pairs = [(1e-3, 1e-6)] if q else [(1e-3, 1e-3), (1e-6, 1e-9), (1e-3, 1e-9)]
    for rt, at in pairs:
        spec = {"tier": a.tier, "A": {"options": dict(STRICT_OPTS)}, "B": {"options": {"table_rtol": rt, "table_atol": at}},
                "mode": "rel", "rel": 10 * rt, "floor": 10 * max(at, rt), "what": f"table_rtol={rt} table_atol={at} vs 1e-13"}
        run_cases(chk, "vlib.kvk", "compare", tt, spec, a.jobs)
    # 5. function level: the tolerance-dependent table helpers on symbolic entries and symbolic tolerances
    if not a.only:
        from vlib import tabletol
        tabletol.run(chk, a.tier)
        chk.encoded("ffcx.ir.elementtables.clamp_table_small_numbers / is_zeros_table / is_ones_table / is_piecewise_table / is_uniform_table / is_permuted_table / equal_tables (real functions, symbolic entries and tolerances, numpy proxy for isclose/allclose)")
    chk.encoded("kernels of the same form under sum_factorization, part, table_rtol/table_atol (ffcx.ir.elementtables, representation, integral_generator, access.table_access)")
    chk.bounds = {"programs": {"sum_factorization": len(sf), "not_applicable": len(na), "diagonal": len(diag), "table_tol": len(tt)}, "inputs": "all kernel inputs symbolic"}
    chk.assumptions = ["exact arithmetic", "a Python exception raised for an option/cell combination counts as an explicit rejection (listed under outside_budget), not as a changed tensor"]
    chk.finish("variant kernels executed symbolically on shared symbolic inputs; Q-ident / pointwise-relative Q-tol per entry")


run_main(main)
