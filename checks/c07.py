"""C07: kernels accumulate into A and are pure functions of their inputs."""
from vlib import corpus
from vlib.common import Check, parse_args, run_main
from vlib.driver import run_cases


def main():
    a = parse_args("C07")
    chk = Check("C07", "other", a.tier)
    tags = ("c07",) if a.tier == "quick" else ("c01", "c02", "c05", "c07", "c09")
    names = corpus.select(*tags, quick=(a.tier == "quick"))
    if a.only:
        names = [n for n in names if n in a.only.split(",")]
    run_cases(chk, "vlib.kernelprops", "purity", names, {"tier": a.tier}, a.jobs)
    from vlib import randforms
    rnames = [randforms.name_of(chk.seed, i) for i in range(12 if a.tier == "quick" else 160)] if not a.only else []
    run_cases(chk, "vlib.kernelprops", "purity", rnames, {"tier": "quick"}, a.jobs)
    chk.extra["random_forms"] = len(rnames)
    # expression kernels are kernels too (expression_generator.py)
    from vlib import exprcheck
    enames = exprcheck.select(quick=(a.tier == "quick")) + [f"randexpr:{chk.seed}:{i}" for i in range(8 if a.tier == "quick" else 120)]
    if not a.only:
        run_cases(chk, "vlib.exprcheck", "expr_purity", enames, {"tier": a.tier}, a.jobs)
        chk.extra["expression_kernels"] = len(enames)
    chk.encoded("generated tabulate_tensor_* C text (all integral types) executed with symbolic initial A", "generated tabulate_tensor_expression_* C text executed with symbolic initial A")
    chk.bounds = {"programs": len(names), "A0": "every initial A entry a free symbol", "inputs": "all symbolic",
                  "entities/permutations": "quick: 3 entity configs x 2 permutation pairs; thorough: all entity configs x up to 16 permutation pairs"}
    chk.assumptions = ["exact arithmetic", "thread-safety argued from: no writes except A/locals, no non-const statics, no file-scope objects referenced (not explored by interleaving)"]
    chk.finish("Q-dep (z3): A_final - A0 must not depend on any A0 symbol; monitors: writes to inputs, uninitialised reads reaching A, non-const statics, file-scope references")


run_main(main)
