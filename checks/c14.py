"""C14: concurrent JIT requests on a shared cache all get one complete, correct module."""
from vlib import jitcheck
from vlib.common import Check, parse_args, run_main


def main():
    a = parse_args("C14")
    chk = Check("C14", "model_checking", a.tier)
    jitcheck.run_c14(chk, a.tier)
    chk.extra.setdefault("traces_validated_against_impl", 0)
    chk.encoded("ffcx.codegeneration.jit.compile_forms, get_cached_module, _compile_objects, _load_objects (decision tree extracted by executing them against scripted environment stubs)")
    chk.bounds = {"processes N": "2 (quick); 2..3 (thorough)", "timeout polls T": "2 (quick); 2..3 (thorough)", "depth": "N x longest trace", "modules": 1, "faults": "none (C15 covers them)"}
    chk.assumptions = ["POSIX semantics of open(...,'x'), os.replace, os.path.exists as written in the harness; local file system (no NFS)", "each logged event is atomic; time-outs counted in polls, not wall-clock",
                       "cffi's compile = write C, partial .so, cc, complete .so (in this order)", "correctness of the loaded kernels themselves is C01-C04's subject"]
    chk.finish("unrolled BMC (z3, QF_LIA/Bool): symbolic schedule over N copies of the extracted tree + shared file state; reachability of double build / load of incomplete module / bad leaf / recompilation after the marker; witness schedules executed by the real functions in threads under a baton scheduler")


run_main(main)
