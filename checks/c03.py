"""C03: interior-facet results do not depend on the cells' local vertex numbering."""
from vlib import corpus, eqcheck, numbering
from vlib.common import Check, parse_args, run_main
from vlib.driver import run_cases


def main():
    a = parse_args("C03")
    chk = Check("C03", "other", a.tier)
    st = eqcheck.QStats()
    for facet in ("interval", "triangle", "quadrilateral"):
        probs, n = numbering.group_check(facet, st)
        chk.cases.append(f"group:{facet}")
        chk.sample({"function": f"permute_quadrature_{facet}", "codes": n, "point": "symbolic (p0,p1); maps are the real functions run on polynomial-valued object arrays"})
        for p in probs:
            src = ("#!/verif/.venv/bin/python\nimport sys\nsys.path[:0]=['/verif','/repo']\nfrom vlib import numbering, eqcheck\n"
                   f"p,_=numbering.group_check({facet!r}, eqcheck.QStats())\nprint('\\n'.join(p) or 'not reproduced')\nsys.exit(1 if p else 0)\n")
            chk.violation(f"group:{facet}:{p[:60]}", p, src)
    chk.merge_queries(st.q, st.secs)
    names = corpus.select("c03", quick=(a.tier == "quick"))
    if a.only:
        names = [n for n in names if n in a.only.split(",")]
    run_cases(chk, "vlib.numbering", "numbering_case", names, {"tier": a.tier}, a.jobs)
    # second sentence of C03 on every interior-facet kernel of the wider corpus + grammar-generated forms
    from vlib import randforms
    fnames = [n for n in corpus.select("c02", "c03", "c05", "c09", quick=(a.tier == "quick")) if "interior_facet" in corpus.REG[n]["itypes"]]
    nrand = 60 if a.tier == "quick" else 400
    rn = [randforms.name_of(chk.seed, i) for i in range(nrand)]
    rn = [n for n in rn if randforms.describe(n).get("itype") == "interior_facet"]
    if not a.only:
        run_cases(chk, "vlib.kernelprops", "permflag", fnames + rn, {"tier": a.tier, "options": {"table_rtol": 1e-13, "table_atol": 1e-13}}, a.jobs)
        chk.extra["flag_programs"] = len(fnames) + len(rn)
    chk.encoded("ffcx.ir.elementtables.permute_quadrature_interval/triangle/quadrilateral (real functions, symbolic point)",
                "interior-facet kernels: tables indexed by quadrature_permutation (elementtables.build_optimized_tables, access.table_access)")
    chk.bounds = {"programs": len(names), "renumberings": "quick: identity x 5-6 renumberings of '-' plus 2 mixed pairs, 2 baseline facet pairs; thorough: up to 48 (sigma+,sigma-) pairs + all sigma-, up to 9 facet pairs",
                  "codes": "every code pair that makes the facet points coincide (thorough) / first two (quick)", "elements": "vertex-based (P1, DG1, vector P1/DG1, DG0, Q1)"}
    chk.assumptions = ["exact arithmetic", "dof permutation of vertex-based elements follows the vertex renumbering", "elements with edge/face/interior dofs and prisms are outside"]
    chk.finish("group facts of the real permute functions by polynomial identity (z3); renumbered dS kernel vs permuted baseline under the matching codes (Q-tol) for all inputs")


run_main(main)
