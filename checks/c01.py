"""C01: cell-integral kernels compute the form's element tensor (kernel text vs UFL oracle)."""
from vlib import corpus
from vlib.common import Check, parse_args, run_main
from vlib.driver import run_cases
from vlib.formcheck import REL_DEFAULT, REL_STRICT, STRICT_OPTS


def main():
    a = parse_args("C01")
    chk = Check("C01", "translation_validation", a.tier)
    names = corpus.select("c01", "c11md", quick=(a.tier == "quick"))
    if a.only:
        names = [n for n in names if n in a.only.split(",")]
    spec = {"tier": a.tier, "itypes": ["cell"], "rel": REL_STRICT, "options": STRICT_OPTS, "all_ids": True}
    run_cases(chk, "vlib.formcheck", "run_form", names, spec, a.jobs)
    # grammar-generated forms (deterministic in VERIF_SEED): widen the bounded corpus of programs
    from vlib import randforms
    nrand = 16 if a.tier == "quick" else 240
    rnames = [randforms.name_of(chk.seed, i) for i in range(nrand)]
    if not a.only:
        run_cases(chk, "vlib.formcheck", "run_form", rnames, spec, a.jobs)
        chk.sample(randforms.describe(rnames[0]))
        chk.extra["random_forms"] = nrand
    # FFCx's DEFAULT table tolerances (what users run): every form in the thorough tier, a slice in the quick tier
    spec2 = {"tier": a.tier, "itypes": ["cell"], "rel": REL_DEFAULT, "options": {}}
    run_cases(chk, "vlib.formcheck", "run_form", names if a.tier == "thorough" else names[::4], spec2, a.jobs)
    chk.encoded("generated tabulate_tensor_* C text of every cell integral (ffcx.compiler.compile_ufl_objects)",
                "whole pipeline ffcx.analysis -> ffcx.ir -> ffcx.codegeneration (observed through its output)")
    chk.bounds = {"programs": len(names), "inputs": "all w, c, coordinate_dofs symbolic (box |.|<=2), |divisor| >= 0.05",
                  "loops": "literal trip counts, fully unrolled", "rel_tol": [REL_STRICT, REL_DEFAULT]}
    chk.assumptions = ["exact real arithmetic (no rounding)", "UFL lowering, basix tabulation/quadrature correct",
                       "atoms identified at 1e-11 relative", "gcc/pycparser front-end"]
    chk.finish("kernel text symbolically executed in exact polynomial domain vs independent UFL evaluator; Q-tol (QF_LRA) per A entry")


run_main(main)
