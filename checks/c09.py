"""C09: all four scalar types compute the same form; complex mode is sesquilinear."""
from vlib import corpus
from vlib.common import Check, parse_args, run_main
from vlib.driver import run_cases
from vlib.formcheck import REL_STRICT, STRICT_OPTS

CT = {"float32": ("float", "float"), "float64": ("double", "double"),
      "complex64": ("float _Complex", "float"), "complex128": ("double _Complex", "double")}


def types_case(name, spec):
    """Declared C types of kernel parameters and REAL/SCALAR locals for each scalar type."""
    from vlib import cfront, corpus, gen
    res = {"name": name, "queries": {}, "violations": [], "harness": [], "inconclusive": [], "outside": [], "samples": [], "extra": {"type_facts": 0}}
    try:
        form = corpus.build(name)
        for st, (sc, rc) in CT.items():
            h, c = gen.compile_c([form], {"scalar_type": st})
            m = cfront.parse_c(c)
            for kn, d in gen.integral_descs(m).items():
                for st2 in CT:
                    if (d.tt[st2] is not None) != (st2 == st):
                        res["violations"].append({"key": f"{name}:{st}:slot:{st2}", "what": f"compiled for {st} but tabulate_tensor_{st2} is {'set' if d.tt[st2] else 'NULL'}", "replay": None})
                k = m.kernels[d.tt[st]]
                pt = {p["name"]: p["ctype"] for p in k.params}
                want = {"A": sc, "w": sc, "c": sc, "coordinate_dofs": rc, "entity_local_index": "int", "quadrature_permutation": "uint8_t"}
                for pn, ct in want.items():
                    res["extra"]["type_facts"] += 1
                    if pt.get(pn) != ct:
                        res["violations"].append({"key": f"{name}:{st}:param:{pn}", "what": f"{st} kernel declares {pn} as {pt.get(pn)!r}, contract says {ct!r}", "replay": None})
                for ln, ct in k.local_ctypes.items():
                    res["extra"]["type_facts"] += 1
                    if ct not in (sc, rc, "int", "_Bool", "bool"):
                        res["violations"].append({"key": f"{name}:{st}:local:{ln}", "what": f"{st} kernel local {ln} has type {ct!r} (neither {sc!r} nor {rc!r})", "replay": None})
                    if (ln.startswith("J") or ln.startswith("weights") or ln.startswith("FE")) and ct != rc:
                        res["violations"].append({"key": f"{name}:{st}:geometry-local:{ln}", "what": f"geometry/table {ln} is {ct!r}, expected real type {rc!r}", "replay": None})
        res["samples"].append({"form": name, "types_checked": list(CT)})
    except gen.Rejected as e:
        res["outside"].append(f"{name}: rejected: {e}")
    except Exception as e:
        res["harness"].append(f"{name}: {type(e).__name__}: {e}")
    return res


def main():
    a = parse_args("C09")
    chk = Check("C09", "translation_validation", a.tier)
    q = a.tier == "quick"
    only = a.only.split(",") if a.only else None
    f = lambda ns: [n for n in ns if not only or n in only]
    real_forms = f(corpus.select("c09", quick=q) + (corpus.select("c01", "c02", quick=True) if not q else []))
    real_forms = list(dict.fromkeys(real_forms))
    # 1. same form, four scalar types, real-valued data (imaginary parts of w, c are 0)
    for st in ("float32", "complex128", "complex64"):
        spec = {"tier": a.tier, "A": {"scalar": "float64", "options": dict(STRICT_OPTS)}, "B": {"scalar": st, "options": dict(STRICT_OPTS)},
                "mode": "rel", "rel": 1e-9, "real_data": True, "what": f"float64 vs {st} on real data", "b_may_reject": True, "single_precision": "32" in st or "64" in st and st.startswith("complex6")}
        run_cases(chk, "vlib.kvk", "compare", real_forms, spec, a.jobs)
    # 2. declared types
    run_cases(chk, "checks.c09", "types_case", f(corpus.select("c09", quick=True)), {"tier": a.tier}, a.jobs)
    # 3. complex data: complex kernels vs the form evaluated in complex arithmetic (sesquilinear)
    cforms = f([n for n in corpus.select("c09", quick=q)])
    for st in (("complex128",) if q else ("complex128", "complex64")):
        spec = {"tier": a.tier, "rel": REL_STRICT, "options": dict(STRICT_OPTS), "scalar": st}
        run_cases(chk, "vlib.formcheck", "run_form", cforms, spec, a.jobs)
    from vlib import randforms
    rc = [randforms.name_of(chk.seed, i, cplx=True) for i in range(12 if q else 200)] if not only else []
    run_cases(chk, "vlib.formcheck", "run_form", rc, {"tier": "quick", "rel": REL_STRICT, "options": dict(STRICT_OPTS), "scalar": "complex128", "all_ids": True}, a.jobs)
    rr = [randforms.name_of(chk.seed, i) for i in range(8 if q else 100)] if not only else []
    run_cases(chk, "vlib.kvk", "compare", rr, {"tier": "quick", "A": {"scalar": "float64", "options": dict(STRICT_OPTS)}, "B": {"scalar": "float32", "options": dict(STRICT_OPTS)},
                                               "mode": "rel", "rel": 1e-9, "real_data": True, "what": "float64 vs float32 on real data (random forms)", "b_may_reject": True, "single_precision": True}, a.jobs)
    chk.extra["random_complex_forms"] = len(rc)
    chk.encoded("tabulate_tensor_float32/float64/complex64/complex128 texts of the same form", "C formatter math_table / dtype inference (through the emitted calls and declared types)")
    chk.bounds = {"programs": len(real_forms), "complex programs": len(cforms), "inputs": "re and im parts of every w, c symbolic (complex data); im = 0 (real data)"}
    chk.assumptions = ["exact arithmetic: 'to within the precision of the narrower type' is not modelled (rounding is outside)", "real arguments of sqrt/log/... lie in the function's real domain",
                       "C implicit complex->real conversion drops the imaginary part (modelled)"]
    chk.finish("four scalar-type texts executed symbolically; pointwise-relative Q-tol between them on real data and against the complex-mode UFL oracle on complex data; declared C types read from the AST")


if __name__ == "__main__":
    run_main(main)
