"""C16: formatted source means exactly what the code-generation AST says."""
from vlib import fmtcheck
from vlib.common import Check, parse_args, run_main


def main():
    a = parse_args("C16")
    chk = Check("C16", "other", a.tier)
    fmtcheck.check_trees(chk, a.tier)
    fmtcheck.check_statements(chk)
    fmtcheck.check_literals(chk, a.tier)
    chk.encoded("ffcx.codegeneration.C.formatter.Formatter.__call__ (all handlers) and _format_number", "ffcx.codegeneration.numba.formatter.Formatter.__call__", "lnodes.PRECEDENCE (through the emitted parentheses)")
    chk.bounds = {"trees": "depth <= 3: every (operator, position, leaf), every (parent, position, child operator), every chain over the core operators at depth 3",
                  "arithmetic": "IEEE Float16 round-to-nearest-even for value comparison (precedence/associativity faults do not depend on the width)",
                  "literals": "quick: binades -12..12 and 11 extreme ones; thorough: every normal binade; each (binade, decade) segment covers all 2^52 mantissas"}
    chk.assumptions = ["pycparser / python ast are the reference grammars", "math functions other than sqrt/fabs are uninterpreted", "Float16 stands for the float types",
                       "correctly rounded decimal<->binary conversions in CPython's float formatting and in the C compiler's literal parsing"]
    chk.finish("LNodes tree vs parsed-back text as z3 FP/Bool/Int terms: exists leaves with different non-NaN values; QF_LIA round-trip query per (binade, decade) literal segment; statements compared field by field")


run_main(main)
