"""C13: JIT signatures are stable across processes and separate different inputs."""
from vlib import sigcheck
from vlib.common import Check, parse_args, run_main


def main():
    a = parse_args("C13")
    chk = Check("C13", "other", a.tier)
    sigcheck.check_points(chk, a.tier)
    sigcheck.check_sensitivity(chk, a.tier)
    sigcheck.check_identifiers(chk, a.tier)
    sigcheck.check_stability(chk, a.tier)
    sigcheck.check_history(chk, a.tier)
    chk.encoded("ffcx.naming.compute_signature (pre-image captured by a hashlib recorder)", "jit._compute_option_signature / _compilation_signature", "naming.form_name / integral_name / expression_name")
    chk.bounds = {"points": "quick: binades 2^-6..2^2; thorough: 2^-40..2^10 (coordinates of reference cells lie in [0,1])", "options": "2-4 values per option", "stability": "9 (quick) / 88 (thorough) subprocesses: hash seeds x UFL counter offsets (incl. 8,9,10,98,99,100,998,999) x creation orders; compile flags with 4 entries", "history": "pool of 9 requests (6 expressions, 3 forms); every history of length <= 2 (quick), plus a fifth of the length-3 histories (thorough); id() of ffcx modules replaced by an environment that reuses identities of dead objects"}
    chk.assumptions = ["sha1 is injective on the pre-images compared", "SOLVER-DECIDED: only the evaluation-point part (QF_LIA over all doubles of a segment)",
                       "ENUMERATED, not solver-decided: option/flag sensitivity, identifier validity, cross-process stability (sampling of hash seeds, counter offsets, creation orders), in-process history independence (bounded histories, adversarial id() environment)"]
    chk.finish("QF_LIA collision query on the decimal rendering of evaluation points found in the real pre-image; bounded enumeration for the remaining parts (stated)")


run_main(main)
