"""C02: facet and vertex kernels integrate over the indicated entity; macro layout for dS."""
from vlib import corpus
from vlib.common import Check, parse_args, run_main
from vlib.driver import run_cases
from vlib.formcheck import REL_DEFAULT, REL_STRICT, STRICT_OPTS


def main():
    a = parse_args("C02")
    chk = Check("C02", "translation_validation", a.tier)
    names = corpus.select("c02", quick=(a.tier == "quick"))
    if a.only:
        names = [n for n in names if n in a.only.split(",")]
    spec = {"tier": a.tier, "itypes": ["exterior_facet", "interior_facet", "vertex"], "rel": REL_STRICT, "options": STRICT_OPTS, "all_ids": True}
    run_cases(chk, "vlib.formcheck", "run_form", names, spec, a.jobs)
    # grammar-generated forms (deterministic in VERIF_SEED): widen the bounded corpus of programs
    from vlib import randforms
    nrand = 16 if a.tier == "quick" else 240
    rnames = [randforms.name_of(chk.seed, i) for i in range(nrand)]
    if not a.only:
        run_cases(chk, "vlib.formcheck", "run_form", rnames, spec, a.jobs)
        chk.sample(randforms.describe(rnames[0]))
        chk.extra["random_forms"] = nrand
    # FFCx's DEFAULT table tolerances: all forms in the thorough tier, a slice in the quick tier
    spec2 = dict(spec, rel=REL_DEFAULT, options={})
    run_cases(chk, "vlib.formcheck", "run_form", names if a.tier == "thorough" else names[::4], spec2, a.jobs)
    chk.encoded("generated tabulate_tensor_* C text of every exterior_facet / interior_facet / vertex integral")
    chk.bounds = {"programs": len(names), "entities": "every local facet/vertex index (every (+,-) pair in the thorough tier; a covering subset of pairs in quick)",
                  "permutation codes": "(0,0) (all other codes: C03)", "inputs": "all w, c, coordinate_dofs of both cells symbolic"}
    chk.assumptions = ["exact real arithmetic", "UFL lowering / basix reference geometry correct", "facet point map X = v0 + sum (v_k - v0) p_k with basix vertex order"]
    chk.finish("facet/vertex kernel text vs oracle with harness-side entity maps and macro layout; Q-tol (QF_LRA) per A entry")


run_main(main)
