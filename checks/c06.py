"""C06: form descriptor dispatches each (type, subdomain id) to the right kernel."""
import json
from vlib import corpus, dispatch, eqcheck
from vlib.common import Check, parse_args, run_main
from vlib.driver import run_cases, REPLAY_TMPL


def main():
    a = parse_args("C06")
    chk = Check("C06", "other", a.tier)
    # (1) function level: real integral_data, z3 ids, every argsort outcome
    st = eqcheck.QStats()
    shp = dispatch.shapes(a.tier)
    nruns = 0
    seen = set()
    for s in shp:
        probs, n = dispatch.integral_data_symbolic(s, st)
        nruns += n
        chk.cases.append(f"integral_data{json.dumps(s)}")
        if a.tier == "thorough" or sum(len(v) for v in s.values()) <= 2:
            cp, cn = dispatch.integral_data_concrete(s)
            chk.extra["integral_data_concrete_runs"] = chk.extra.get("integral_data_concrete_runs", 0) + cn
            probs = probs + cp
        for kind, shape, combo, what in probs:
            if kind in seen:
                continue
            seen.add(kind)
            if kind == "not-executable":
                chk.inconc(f"integral_data on symbolic ids: {what}")
                continue
            if kind == "concrete":
                src = "#!/verif/.venv/bin/python\nimport sys\nsys.path[:0]=['/verif','/repo']\nfrom vlib import dispatch\np,_=dispatch.integral_data_concrete(%r)\nprint(p)\nsys.exit(1 if p else 0)\n" % (shape,)
                chk.violation(f"integral_data:concrete:{json.dumps(shape)}", f"codegeneration.common.integral_data (unmodified, concrete ids) on stub FormIR {shape}: {what}", src)
                continue
            # replay on the real pipeline before reporting
            rc = dispatch.replay_offsets() if kind in ("offsets", "count", "lost") else 1
            if rc:
                src = "#!/verif/.venv/bin/python\nimport sys\nsys.path[:0]=['/verif','/repo']\nfrom vlib import dispatch\nsys.exit(dispatch.replay_offsets())\n"
                chk.violation(f"integral_data:{kind}", f"codegeneration.common.integral_data, stub FormIR {shape}, argsort outcome {combo}: {what}", src)
            else:
                chk.inconc(f"integral_data {kind}: not reproduced on the real pipeline")
    # vacuity twin: without the argsort contract the sortedness query must come back sat
    chk.twins_run += 1
    tp, _ = dispatch.integral_data_symbolic({"cell": [1, 1]}, eqcheck.QStats(), twin=True)
    if any(k == "unsorted" for k, *_ in tp):
        chk.twins_ok += 1
    else:
        chk.harness_error("integral_data twin (no argsort contract) not detected")
    chk.merge_queries(st.q, st.secs)
    chk.extra["integral_data_shapes"] = len(shp)
    chk.extra["integral_data_runs"] = nruns
    chk.sample({"function": "integral_data", "stub_shape": shp[len(shp) // 2], "ids": "z3 Int per integral; np.argsort replaced by every permutation with its sortedness contract as constraint"})
    # (2) end to end
    names = corpus.select("c06", quick=(a.tier == "quick"))
    if a.tier == "thorough":
        names = list(dict.fromkeys(names + corpus.select("c05", "c02", quick=True)))
    if a.only:
        names = [n for n in names if n in a.only.split(",")]
    run_cases(chk, "vlib.dispatch", "dispatch_case", names, {"tier": a.tier}, a.jobs)
    # random subdomain-id patterns (deterministic in VERIF_SEED)
    rn = [f"randids:{chk.seed}:{i}" for i in range(16 if a.tier == "quick" else 200)] if not a.only else []
    run_cases(chk, "vlib.dispatch", "dispatch_case", rn, {"tier": "quick"}, a.jobs)
    chk.extra["random_id_patterns"] = len(rn)
    chk.encoded("ffcx.codegeneration.common.integral_data (real function, z3 Int ids, np.argsort stubbed by its contract)",
                "emitted ufcx_form / ufcx_integral initialisers and the kernels they list")
    chk.bounds = {"stub shapes": len(shp), "integrals per type": "<= 2 (quick) / 3 (thorough), two types at a time, 1-2 domains each", "programs": len(names)}
    chk.assumptions = ["np.argsort returns some permutation that sorts (ties in any order)", "descriptor integers/strings/hashes are compared concretely (no solver involved)",
                       "oracle per (type,id) is built from the ORIGINAL form's integrals, packed by the whole form's contract"]
    chk.finish("integral_data executed on z3 ids for every argsort outcome (QF_LIA: sortedness, id/kernel pairing); per (type,id) the sum of listed kernels vs the declared integrands (Q-tol)")


run_main(main)
