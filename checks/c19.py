"""C19: accepted input always yields valid C; rejected input fails before the compiler."""
from vlib import corpus, validc
from vlib.common import Check, parse_args, run_main
from vlib.driver import run_cases


def main():
    a = parse_args("C19")
    chk = Check("C19", "other", a.tier)
    q = a.tier == "quick"
    # 1. name builder injectivity (z3 strings on the template inferred from the real function)
    validc.psi_injective(chk)
    # 2. rule ids: real QuadratureRule.id(), Distinct by z3, colliding pairs replayed through gcc
    ncoll = 0
    for cell, r, n, coll in validc.rule_id_collisions(a.tier):
        chk.q("Q-distinct", "unsat" if r == "unsat" else "sat")
        chk.cases.append(f"rule-ids:{cell}")
        chk.extra[f"rule_ids_{cell}"] = n
        for (c_, rid, lst) in coll[: (2 if q else 6)]:
            r1, r2 = lst[0], lst[1]
            bad, err = validc.replay_rule_collision(cell, r1, r2, quiet=True)
            ncoll += 1
            if bad:
                src = ("#!/verif/.venv/bin/python\nimport sys\nsys.path[:0]=['/verif','/repo']\nfrom vlib import validc\n"
                       f"sys.exit(1 if validc.replay_rule_collision({cell!r}, {r1!r}, {r2!r})[0] else 0)\n")
                chk.violation(f"rule-id-collision:{cell}:{rid}", f"{cell}: rules {r1} and {r2} share the id {rid!r}; a form using both on one subdomain does not compile: {err.splitlines()[0][:160] if err else ''}", src)
            elif err != "rejected":
                chk.extra.setdefault("rule_id_collisions_harmless", []).append([cell, rid, lst[:2]])
    chk.extra["rule_id_collisions_examined"] = ncoll
    # 3. every accepted corpus form builds (all four scalar types in thorough)
    names = sorted(corpus.REG) if not q else corpus.select("c01", "c02", "c05", "c06", "c09", "c11md", "c19", quick=True)
    if a.only:
        names = [n for n in names if n in a.only.split(",")]
    run_cases(chk, "vlib.validc", "builds_case", names, {"tier": a.tier, "scalars": ["float64"] if q else ["float64", "float32"]}, a.jobs)
    from vlib import exprcheck
    enames = exprcheck.select(quick=q) + [f"randexpr:{chk.seed}:{i}" for i in range(8 if q else 120)]
    if not a.only:
        run_cases(chk, "vlib.validc", "builds_expr_case", enames, {"tier": a.tier, "scalars": ["float64"] if q else ["float64", "complex128"]}, a.jobs)
        chk.extra["expressions_built"] = len(enames)
    # 4. unsupported constructs
    cands = [n for n, _, _ in validc.rejection_candidates()]
    run_cases(chk, "vlib.validc", "rejection_case", cands, {"tier": a.tier}, min(a.jobs, 6))
    chk.encoded("ffcx.ir.elementtables.generate_psi_table_name (template by probing + z3 strings)", "ffcx.ir.representationutils.QuadratureRule.id", "whole compiler on the corpus (gcc as validity oracle)", "rejection paths in analysis / IR / code generation")
    chk.bounds = {"name builder": "element counter, component <= 4 digits; derivative counts one digit (beyond: reported separately)", "rule ids": "cells x degrees 0..30 x {default, GLL, Gauss-Jacobi}",
                  "programs built": len(names), "unsupported constructs": len(cands)}
    chk.assumptions = ["gcc -std=c17 -c is the validity oracle", "rule ids are sha1 digits: evaluated, not reasoned about (only the Distinct step is a solver query)",
                       "a construct marked must_reject is one the UFCx kernel cannot represent (affine-in-argument expression, non-linear argument, discontinuous vertex integrand, ...)"]
    chk.finish("z3 string injectivity of the table-name template; z3 Distinct over real rule ids + gcc replay of colliding pairs; gcc build of every accepted corpus module; rejection list")


run_main(main)
