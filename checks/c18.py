"""C18: the numba backend computes the same tensors as the C backend."""
import subprocess
import sys

from vlib import corpus
from vlib.common import Check, parse_args, run_main
from vlib.driver import run_cases
from vlib.formcheck import STRICT_OPTS


def validity_case(name, spec):
    """Generated module must be valid Python whose called names resolve; descriptors must agree with the C ones."""
    from vlib import cfront, corpus, gen, pyfront
    from vlib.formcheck import kernel_layout, sid_list
    from vlib import uflref
    res = {"name": name, "queries": {}, "violations": [], "harness": [], "inconclusive": [], "outside": [], "samples": [], "extra": {"descriptor_fields_compared": 0}}
    try:
        entry = corpus.REG[name]
        scalar = entry.get("scalar", "float64")
        form = corpus.build(name)
        opts = dict(spec.get("options") or {}, scalar_type=scalar)
        h, c = gen.compile_c([form], opts)
        py = gen.compile_numba([form], opts)
        mc = cfront.parse_c(c)
        try:
            mp = pyfront.parse_numba(py)
        except pyfront.InvalidPython as e:
            res["violations"].append({"key": f"{name}:invalid-python", "what": str(e), "replay": {"kind": "numba_valid", "name": name, "options": opts}})
            return res
        for f, line, why in mp.unresolved_calls[:3]:
            res["violations"].append({"key": f"{name}:unresolved:{f}", "what": f"generated module calls {f} (line {line}): {why}", "replay": {"kind": "numba_valid", "name": name, "options": opts}})
        fc = gen.form_descs(mc)[0]
        fp = mp.forms[0]
        ic = gen.integral_descs(mc)
        for fld in ("rank", "num_coefficients", "num_constants", "signature", "ocp", "offsets", "ids", "coefficient_names", "constant_names", "constant_ranks", "fe_hashes"):
            a, b = getattr(fc, fld), getattr(fp, fld)
            a = list(a) if isinstance(a, (list, tuple)) else a
            b = list(b) if isinstance(b, (list, tuple)) else b
            res["extra"]["descriptor_fields_compared"] += 1
            if a != b:
                res["violations"].append({"key": f"{name}:descriptor:{fld}", "what": f"form descriptor field {fld}: C {a!r} vs numba {b!r}", "replay": None})
        if [n for n in fc.integral_names] != [n for n in fp.integral_names]:
            res["violations"].append({"key": f"{name}:descriptor:form_integrals", "what": f"kernel lists differ: C {fc.integral_names} vs numba {fp.integral_names}", "replay": None})
        for kn, dc in ic.items():
            dp = mp.integrals.get(kn)
            if dp is None:
                res["violations"].append({"key": f"{name}:missing-integral:{kn}", "what": f"numba module lacks {kn}", "replay": None})
                continue
            for fld in ("enabled", "needs_perm", "ce_hash", "domain"):
                a, b = getattr(dc, fld), getattr(dp, fld)
                if fld == "enabled":
                    a, b = [bool(x) for x in a], [bool(x) for x in b]
                res["extra"]["descriptor_fields_compared"] += 1
                if a != b:
                    res["violations"].append({"key": f"{name}:descriptor:{kn[-8:]}:{fld}", "what": f"integral descriptor {fld}: C {a!r} vs numba {b!r}", "replay": None})
        # declared carray sizes vs the contract
        fref = uflref.FormRef(form, scalar)
        for itd in fref.fd.integral_data:
            nw, nc, nx, shape, nA, width, cel = kernel_layout(fref, itd)
            for sid in sid_list(itd):
                for kn in fp.kernels_for(itd.integral_type, sid):
                    k = mp.kernels[mp.integrals[kn].kernel_name]
                    want = {"A": nA, "w": nw, "c": nc, "coordinate_dofs": nx}
                    for arr, n in want.items():
                        got = k.declared_sizes.get(arr)
                        res["extra"]["descriptor_fields_compared"] += 1
                        if got is not None and got < n:
                            res["violations"].append({"key": f"{name}:carray:{itd.integral_type}:{arr}", "what": f"{itd.integral_type} kernel declares {arr} = numba.carray(_, ({got})) but the contract passes {n} entries and the kernel's layout needs them", "replay": None})
        # memory safety of the numba text: every access site against the contract extents AND the declared views (QF_LIA)
        from vlib import eqcheck
        from vlib.kernelprops import NPERM, contract_extents, site_queries
        from vlib.formcheck import entity_configs
        st = eqcheck.QStats()
        for itd in fref.fd.integral_data:
            itype = itd.integral_type
            cellname = itd.domain.ufl_cell().cellname
            ext = contract_extents(fref, itd)
            for sid in sid_list(itd):
                for kn in fp.kernels_for(itype, sid):
                    dp = mp.integrals[kn]
                    k = mp.kernels[dp.kernel_name]
                    fc = dp.domain if itype in ("exterior_facet", "interior_facet") else None
                    ents = sorted({e[0] for e in entity_configs(itype, cellname, "thorough", fc)})
                    nperm = NPERM.get(fc, 1) if itype == "interior_facet" else 1
                    for label, extents in (("contract", ext), ("declared view", {a: min(ext.get(a, 10**9), k.declared_sizes.get(a, 10**9)) for a in ext})):
                        out, n = site_queries(k, extents, ents, nperm, st, lang="py")
                        res["extra"]["numba_access_sites"] = res["extra"].get("numba_access_sites", 0) + n
                        for desc, verdict, mdl in out:
                            if verdict == "sat":
                                res["violations"].append({"key": f"{name}:numba-bounds:{itype}:{desc.split(' line')[0]}:{label}",
                                                          "what": f"numba kernel {desc}: index {mdl['_index']} outside {label} extent {mdl['_shape']}", "replay": None})
                            elif verdict != "unsat":
                                res["inconclusive"].append(f"{name}: numba site {desc}: {verdict}")
        res["queries"] = st.q
        res["samples"].append({"form": name, "numba_kernels": len(mp.kernels), "imports": sorted(mp.imports)})
    except gen.Rejected as e:
        res["outside"].append(f"{name}: rejected: {e}")
    except Exception as e:
        import traceback
        res["harness"].append(f"{name}: {type(e).__name__}: {e} {traceback.format_exc()[-800:]}")
    return res


def main():
    a = parse_args("C18")
    chk = Check("C18", "translation_validation", a.tier)
    q = a.tier == "quick"
    names = corpus.select("c18", quick=q)
    if not q:
        names = list(dict.fromkeys(names + corpus.select("c01", "c02", quick=True)))
    if a.only:
        names = [n for n in names if n in a.only.split(",")]
    run_cases(chk, "checks.c18", "validity_case", names, {"tier": a.tier}, a.jobs)
    spec = {"tier": a.tier, "A": {"options": dict(STRICT_OPTS)}, "B": {"options": dict(STRICT_OPTS), "lang": "numba"},
            "mode": "rel", "rel": 1e-9, "what": "C backend vs numba backend"}
    run_cases(chk, "vlib.kvk", "compare", names, spec, a.jobs)
    from vlib import randforms
    rnames = [randforms.name_of(chk.seed, i) for i in range(12 if a.tier == "quick" else 160)] if not a.only else []
    run_cases(chk, "checks.c18", "validity_case", rnames, {"tier": a.tier}, a.jobs)
    run_cases(chk, "vlib.kvk", "compare", rnames, dict(spec, tier="quick"), a.jobs)
    chk.extra["random_forms"] = len(rnames)
    # modules with several objects (forms + expressions) compiled in one call / one process; expression kernels
    from vlib import multimod
    mnames = multimod.select(quick=q) if not a.only else []
    run_cases(chk, "vlib.multimod", "module_case", mnames, {"tier": a.tier}, a.jobs)
    chk.extra["multi_object_modules"] = len(mnames)
    chk.encoded("generated *_numba.py kernels (python ast front-end) and C kernels of the same form", "numba/formatter.py spelling of operators and math functions (through the emitted text)", "codegeneration.common.tensor_sizes (declared carray sizes)")
    chk.bounds = {"programs": len(names), "inputs": "all symbolic", "literals": "C text 16 significant digits, numba text shortest repr: compared at 1e-9 relative"}
    chk.assumptions = ["exact arithmetic", "numba.carray modelled as a view of the caller's buffer", "numpy semantics of np.* calls as implemented in the executor"]
    chk.finish("numba text and C text executed on shared symbolic inputs, pointwise-relative Q-tol per entry; module validity (ast.parse, call resolution) and descriptors compared concretely")


if __name__ == "__main__":
    run_main(main)
