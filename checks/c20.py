"""C20: the command-line compiler emits a self-consistent header/source pair."""
from vlib import clicheck
from vlib.common import Check, parse_args, run_main


def main():
    a = parse_args("C20")
    chk = Check("C20", "other", a.tier)
    clicheck.precedence(chk)
    clicheck.pair_consistency(chk)
    clicheck.same_as_jit(chk, a.tier)
    chk.encoded("ffcx.main.main (real argparse + filtering of unset options)", "ffcx.options.get_options (merge order)", "ffcx.formatting / C templates (through the files written)", "CLI kernels vs ffcx.codegeneration.jit.compile_forms kernels")
    chk.bounds = {"options": "every key of FFCX_DEFAULT_OPTIONS x {given, not given on the command line} x every presence pattern in the two json files; json values symbolic integers",
                  "UFL file": "one file with 3 forms (rank 2/1/0; dx, ds, dS), one element, one expression"}
    chk.assumptions = ["json values modelled as integers distinct from CLI/default values", "argparse behaviour is the real one (concrete argv)", "header/source facts are concrete comparisons on the parsed files",
                       "CLI-vs-JIT kernels compared for one entity configuration per kernel, all other inputs symbolic"]
    chk.finish("real main()+get_options executed per path on symbolic json values (z3 per path); header/source pair parsed with the C front-end and built with gcc; CLI kernels vs JIT kernels Q-ident for all inputs")


run_main(main)
