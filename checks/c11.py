"""C11: requested quadrature degree/scheme is honoured and exact where it should be."""
from vlib import corpus
from vlib.common import Check, parse_args, run_main
from vlib.driver import run_cases
from vlib.formcheck import REL_STRICT, STRICT_OPTS


def main():
    a = parse_args("C11")
    chk = Check("C11", "translation_validation", a.tier)
    q = a.tier == "quick"
    only = a.only.split(",") if a.only else None
    f = lambda ns: [n for n in ns if not only or n in only]
    # (a) the rule named by the metadata is the rule used (oracle integrates each integral with its own rule)
    md = f(corpus.select("c11md", quick=q))
    spec = {"tier": a.tier, "rel": REL_STRICT, "options": STRICT_OPTS, "all_ids": True}
    run_cases(chk, "vlib.formcheck", "run_form", md, spec, a.jobs)
    # (b) exactness against closed-form integrals (not another quadrature)
    from vlib import exactq
    cases = exactq.cases(a.tier)
    if only:
        cases = [c for c in cases if c in only]
    run_cases(chk, "vlib.exactq", "exact_case", cases, {"tier": a.tier}, a.jobs)
    chk.encoded("cell/facet kernels of forms with explicit quadrature_degree / quadrature_rule metadata", "ffcx.analysis degree/scheme extraction, ffcx.ir.representation._group_integrands_by_quadrature_rule, integral_generator scopes (through the kernels)")
    chk.bounds = {"metadata programs": len(md), "exactness cases": len(cases), "degrees": "0..6 metadata forms; exactness sweep see samples", "cells": "interval, triangle, quadrilateral, tetrahedron, hexahedron, prism"}
    chk.assumptions = ["exact arithmetic", "closed-form monomial integrals over reference simplices/boxes (Dirichlet formula), affine maps with symbolic vertices for low degree, fixed rational affine cells above"]
    chk.finish("(a) kernel vs oracle using the rule the metadata names (Q-tol); (b) kernel of sum_alpha c_alpha x^alpha dx(degree=q) vs exact integrals, linear in c (Q-tol, QF_LRA)")


run_main(main)
