"""C08: kernels stay inside the extents the UFCx contract gives them (QF_LIA per access site)."""
from vlib import corpus
from vlib.common import Check, parse_args, run_main
from vlib.driver import run_cases


def main():
    a = parse_args("C08")
    chk = Check("C08", "other", a.tier)
    names = [n for n in corpus.select("c08") if a.tier == "thorough" or not ({"grid", "ek"} & corpus.REG[n]["tags"]) or "q" in corpus.REG[n]["tags"]]  # LIA queries are cheap: everything but the generated grids (grid_*, ek_*) in quick
    if a.only:
        names = [n for n in names if n in a.only.split(",")]
    run_cases(chk, "vlib.kernelprops", "bounds", names, {"tier": a.tier}, a.jobs)
    if True:
        run_cases(chk, "vlib.kernelprops", "bounds", corpus.select("c08sf", quick=(a.tier == "quick")), {"tier": a.tier, "options": {"sum_factorization": True}}, a.jobs)
    from vlib import randforms
    rnames = [randforms.name_of(chk.seed, i) for i in range(12 if a.tier == "quick" else 160)] if not a.only else []
    run_cases(chk, "vlib.kernelprops", "bounds", rnames, {"tier": a.tier}, a.jobs)
    chk.extra["random_forms"] = len(rnames)
    # expression kernels: every local facet and permutation code
    from vlib import exprcheck
    enames = exprcheck.select(quick=(a.tier == "quick")) + [f"randexpr:{chk.seed}:{i}" for i in range(8 if a.tier == "quick" else 120)]
    if not a.only:
        run_cases(chk, "vlib.exprcheck", "expr_bounds", enames, {"tier": a.tier}, a.jobs)
        chk.extra["expression_kernels"] = len(enames)
    chk.encoded("every array access site of every generated kernel (loops not unrolled; loop indices, entity index and permutation code are z3 Ints)")
    chk.bounds = {"programs": len(names), "loop variables": "symbolic in [begin,end)", "entity index": "all valid local entities of the kernel's facet type",
                  "permutation code": "0..#perms-1 of the facet type", "extents": "from the form: sum element dims (x2 for dS), constant sizes, 3 x nodes (x2), prod argument dims; 0/1/2 entity and 0/2 permutation entries"}
    chk.assumptions = ["extents of parameters computed by the harness from UFL/basix element dimensions", "ASan/UBSan run is the replay oracle"]
    chk.finish("one QF_LIA query per access site: exists loop indices/entity/permutation in range with index outside extent; sat -> ASan replay")


run_main(main)
