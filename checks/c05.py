"""C05: coefficient/constant packing contract and enabled_coefficients are truthful."""
from vlib import corpus
from vlib.common import Check, parse_args, run_main
from vlib.driver import run_cases
from vlib.formcheck import REL_STRICT, STRICT_OPTS


def main():
    a = parse_args("C05")
    chk = Check("C05", "translation_validation", a.tier)
    names = corpus.select("c05", quick=(a.tier == "quick"))
    if a.only:
        names = [n for n in names if n in a.only.split(",")]
    # offsets / positions / constants: kernel vs oracle that packs by the documented rule
    spec = {"tier": a.tier, "rel": REL_STRICT, "options": STRICT_OPTS, "all_ids": True}
    run_cases(chk, "vlib.formcheck", "run_form", names, spec, a.jobs)
    # enabled_coefficients truthfulness
    run_cases(chk, "vlib.packing", "packing", names, {"tier": a.tier}, a.jobs)
    if a.tier == "thorough":
        run_cases(chk, "vlib.packing", "packing", corpus.select("c05", "c06", "c09"), {"tier": a.tier, "options": {"scalar_type": "float64"}}, a.jobs)
    from vlib import randforms
    rnames = [randforms.name_of(chk.seed, i) for i in range(12 if a.tier == "quick" else 160)] if not a.only else []
    run_cases(chk, "vlib.packing", "packing", rnames, {"tier": a.tier}, a.jobs)
    chk.extra["random_forms"] = len(rnames)
    chk.encoded("generated kernels + enabled_coefficients_* / original_coefficient_position_* initialisers", "ffcx.ir.representation coefficient_offsets / original_constant_offsets (through the emitted w[...] / c[...] accesses)")
    chk.bounds = {"programs": len(names), "entities": "all (quick: first 4 configs)", "permutation pairs": "all (quick: first 2)"}
    chk.assumptions = ["oracle packs w[coefficient][restriction][dof] over the coefficients UFL reports as surviving, c[constant][flat component] over original_form.constants()", "exact arithmetic"]
    chk.finish("kernel vs oracle with contract-side packing (Q-tol); Q-dep (z3): no A entry depends on a symbol of a disabled coefficient; exact read-set of w per unrolled path: no disabled slot is read")


run_main(main)
