"""C17: AST simplifications and optimiser passes preserve the computed values."""
from vlib import corpus
from vlib.common import Check, parse_args, run_main
from vlib.driver import run_cases


def main():
    a = parse_args("C17")
    chk = Check("C17", "other", a.tier)
    names = corpus.select("c17", quick=(a.tier == "quick"))
    if a.tier == "thorough":
        names = corpus.select("c01", "c02", "c17")
    if a.only:
        names = [n for n in names if n in a.only.split(",")]
    # (b) optimiser: kernel generated with the passes vs generated without them
    variants = [("noopt", ["noopt"])]
    if a.tier == "thorough":
        variants += [("nofuse_sections", ["nofuse_sections"]), ("nofuse_loops", ["nofuse_loops"]), ("nolicm", ["nolicm"])]
    for tag, patches in variants:
        spec = {"tier": a.tier, "A": {"patches": patches}, "B": {}, "mode": "ident", "what": f"optimiser: {tag} vs full"}
        # all passes off: the whole corpus; one pass off at a time: the c17/c02 forms (a full thorough run over the whole
        # corpus x 4 variants took 3.3 h on 16 loaded cores)
        sel = names if tag == "noopt" or a.tier == "quick" else [n for n in names if {"c17", "c02"} & corpus.REG[n]["tags"]]
        run_cases(chk, "vlib.kvk", "compare", sel, spec, a.jobs)
    # sum-factorised kernels are where loop fusion and hoisting do most of their work
    from vlib.formcheck import STRICT_OPTS
    sf = [n for n in corpus.select("c10sf", quick=(a.tier == "quick")) if not a.only or n in a.only.split(",")]
    sfo = dict(STRICT_OPTS, sum_factorization=True)
    for tag, patches in variants:
        spec = {"tier": a.tier, "A": {"patches": patches, "options": sfo}, "B": {"options": sfo}, "mode": "ident", "what": f"optimiser on sum-factorised kernels: {tag} vs full", "a_may_reject": True}
        run_cases(chk, "vlib.kvk", "compare", sf, spec, a.jobs)
    chk.extra["sum_factorised_programs"] = len(sf)
    from vlib import randforms
    rnames = [randforms.name_of(chk.seed, i) for i in range(12 if a.tier == "quick" else 160)] if not a.only else []
    run_cases(chk, "vlib.kvk", "compare", rnames, {"tier": "quick", "A": {"patches": ["noopt"]}, "B": {}, "mode": "ident", "what": "optimiser: noopt vs full (random forms)"}, a.jobs)
    chk.extra["random_forms"] = len(rnames)
    # (a) operator overloads: CrossHair / z3 on the real lnodes functions
    try:
        from vlib import lnodes_sym
        lnodes_sym.run(chk, a.tier, a.jobs)
    except ImportError:
        chk.inconc("operator-overload half not built yet")
    chk.encoded("ffcx.codegeneration.optimizer.optimize/fuse_sections/fuse_loops/licm (through the kernels they produce)",
                "ffcx.codegeneration.lnodes.LExpr.__add__/__sub__/__mul__/__truediv__/__neg__ and reflected variants, float_product, MultiIndex")
    chk.bounds = {"programs": len(names), "passes": [t for t, _ in variants], "inputs": "all kernel inputs symbolic"}
    chk.assumptions = ["exact arithmetic (re-association by the passes is invisible; rounding differences are outside)"]
    chk.finish("optimised vs unoptimised kernel text: Q-ident (polynomial disequality, z3) per A entry; overloads: symbolic evaluation of the built tree vs the unsimplified operation")


run_main(main)
